//@ kernel envs serves=C03,C02
//@ item src/subrule.rs impl SubRule members=match_before_env,match_after_env,match_contexts_and_exceptions,context_match
//@ stub SubRule::context_match

//@ pre
// ---- R6: everything the combination logic calls is opaque; each environment half is an arbitrary
// function of exactly the arguments the code passes.
#[verifier::external_body]
pub struct Item { _o: u8 }
#[verifier::external_body]
pub struct Word { _o: u8 }
#[verifier::external_body]
pub struct SubRule { _o: u8 }
#[verifier::external_body]
pub struct RuleRuntimeError { _o: u8 }
#[derive(Clone, Copy)]
#[verifier::external_body]
pub struct SegPos { _o: u8 }

pub uninterp spec fn ctx_of(sr: SubRule) -> Seq<(Seq<Item>, Seq<Item>)>;
pub uninterp spec fn exc_of(sr: SubRule) -> Seq<(Seq<Item>, Seq<Item>)>;
pub uninterp spec fn wrev(w: Word) -> Word;
pub uninterp spec fn prev(p: SegPos, w: Word) -> SegPos;
/// Word::in_bounds (defined and proved in the `positions` kernel; opaque here)
pub uninterp spec fn pos_in_bounds(w: Word, p: SegPos) -> bool;
pub uninterp spec fn pinc(p: SegPos, w: Word) -> SegPos;
/// one element of an environment half (SubRule::context_match): (matched?, state index afterwards, position afterwards)
pub uninterp spec fn step_spec(sr: SubRule, states: Seq<Item>, si: int, w: Word, p: SegPos, forwards: bool, ins: bool) -> (Result<bool, RuleRuntimeError>, int, SegPos);
/// an environment half from element `si` on: every element must match, in sequence, each starting where the previous one
/// stopped.  A context stops at the first element that fails; an exception goes on through all elements (a failed
/// element does not advance the position) and an EMPTY exception half never matches.
pub open spec fn scan(sr: SubRule, states: Seq<Item>, si: int, w: Word, p: SegPos, forwards: bool, ins: bool, is_context: bool, acc: bool) -> Result<bool, RuleRuntimeError>
    decreases states.len() - si
{
    if si < 0 || si >= states.len() { Ok(acc) } else {
        let st = step_spec(sr, states, si, w, p, forwards, ins);
        match st.0 {
            Err(e) => Err(e),
            Ok(m) => if st.1 < si { Ok(acc) } else if !m && is_context { Ok(false) } else if st.1 + 1 >= states.len() { Ok(acc && m) }
                else { scan(sr, states, st.1 + 1, w, st.2, forwards, ins, is_context, acc && m) },
        }
    }
}
pub open spec fn acc0(states: Seq<Item>, is_context: bool) -> bool { if is_context { true } else { states.len() != 0 } }
pub open spec fn before_spec(sr: SubRule, states: Seq<Item>, word_rev: Word, pos: SegPos, ins: bool, is_context: bool) -> Result<bool, RuleRuntimeError> {
    scan(sr, states, 0, word_rev, pinc(pos, word_rev), false, ins, is_context, acc0(states, is_context))
}
pub open spec fn after_spec(sr: SubRule, states: Seq<Item>, word: Word, pos: SegPos, ins: bool, inc: bool, is_context: bool) -> Result<bool, RuleRuntimeError> {
    scan(sr, states, 0, word, if inc { pinc(pos, word) } else { pos }, true, ins, is_context, acc0(states, is_context))
}
pub open spec fn pairs_view(v: Seq<(&Vec<Item>, &Vec<Item>)>) -> Seq<(Seq<Item>, Seq<Item>)> {
    Seq::new(v.len(), |i: int| ((*v[i].0)@, (*v[i].1)@))
}

impl Clone for Item {
    #[verifier::external_body]
    fn clone(&self) -> (r: Self) ensures r == *self { unimplemented!() }
}
// trusted std contract: slice::reverse
pub assume_specification<T>[ <[T]>::reverse ](s: &mut [T])
    ensures final(s)@ == old(s)@.reverse();

impl Word {
    #[verifier::external_body]
    pub(crate) fn reverse(&self) -> (r: Self) ensures r == wrev(*self) { unimplemented!() }
}
impl SegPos {
    #[verifier::external_body]
    pub(crate) fn reversed(&self, word: &Word) -> (r: Self)
        // the precondition of the real function, as proved in the `positions` kernel (its `debug_assert!(word.in_bounds(*self))`)
        requires /*#reversed.needs_an_in_bounds_position C02*/ pos_in_bounds(*word, *self),
        ensures r == prev(*self, *word)
    { unimplemented!() }
    #[verifier::external_body]
    pub(crate) fn increment(&mut self, word: &Word) ensures *final(self) == pinc(*old(self), *word) { unimplemented!() }
}
impl SubRule {
    #[verifier::external_body]
    fn get_contexts(&self) -> (r: Vec<(&Vec<Item>, &Vec<Item>)>) ensures pairs_view(r@) == ctx_of(*self) { unimplemented!() }
    #[verifier::external_body]
    fn get_exceptions(&self) -> (r: Vec<(&Vec<Item>, &Vec<Item>)>) ensures pairs_view(r@) == exc_of(*self) { unimplemented!() }
}
//@ end

//@ post
/// one `before _ after` environment: an empty half always matches; the before half is matched reversed, on the reversed word, from the mirrored start position
pub open spec fn env_res(sr: SubRule, e: (Seq<Item>, Seq<Item>), w: Word, sp: SegPos, ep: SegPos, inc: bool, is_context: bool) -> Result<bool, RuleRuntimeError> {
    let b = if e.0.len() == 0 { Ok(true) } else { before_spec(sr, e.0.reverse(), wrev(w), prev(sp, w), false, is_context) };
    match b {
        Ok(true) => if e.1.len() == 0 { Ok(true) } else { after_spec(sr, e.1, w, ep, false, inc, is_context) },
        Ok(false) => Ok(false),
        Err(x) => Err(x),
    }
}
/// does any of environments k.. match (first error wins, nothing after the first match is evaluated)
pub open spec fn any_env(sr: SubRule, es: Seq<(Seq<Item>, Seq<Item>)>, k: int, w: Word, sp: SegPos, ep: SegPos, inc: bool, is_context: bool) -> Result<bool, RuleRuntimeError>
    decreases es.len() - k
{
    if k < 0 || k >= es.len() { Ok(false) } else {
        match env_res(sr, es[k], w, sp, ep, inc, is_context) {
            Ok(true) => Ok(true),
            Ok(false) => any_env(sr, es, k + 1, w, sp, ep, inc, is_context),
            Err(x) => Err(x),
        }
    }
}
/// the position is a match site iff some context environment matches (or there is none) and NO exception environment matches
pub open spec fn combine(sr: SubRule, w: Word, sp: SegPos, ep: SegPos, inc: bool) -> Result<bool, RuleRuntimeError> {
    let c = if ctx_of(sr).len() == 0 { Ok(true) } else { any_env(sr, ctx_of(sr), 0, w, sp, ep, inc, true) };
    match c {
        Err(x) => Err(x),
        Ok(cm) => match any_env(sr, exc_of(sr), 0, w, sp, ep, inc, false) {
            Err(x) => Err(x),
            Ok(xm) => Ok(cm && !xm),
        },
    }
}
//@ end

//@ attr SubRule::match_contexts_and_exceptions
#[verifier::loop_isolation(false)]
//@ end
//@ contract SubRule::match_contexts_and_exceptions ret=r
    // start_pos is the position of the first matched element (SubRule::apply), hence inside the word
    requires pos_in_bounds(*word, start_pos),
    ensures /*#envs.context_and_not_exception C03*/ r == combine(*self, *word, start_pos, end_pos, inc),
//@ end
// Loops with `break`: the function runs with loop_isolation(false), where a `break` simply continues after the loop with
// the state at the break and a normal exit knows the invariant plus "iterator exhausted".  (`ensures` on a `for` loop is
// silently IGNORED by this Verus in that mode -- neither checked nor assumed -- so none is written; what holds after each
// loop is asserted explicitly, after the loop.)
//@ loop_ghost_before SubRule::match_contexts_and_exceptions 0
    let ghost cs = contexts@;
    let ghost xs = exceptions@;
//@ end
//@ loop SubRule::match_contexts_and_exceptions 0 iter=it0
    invariant_except_break
        it0.seq() == cs, pairs_view(cs) == ctx_of(*self), pairs_view(xs) == exc_of(*self), xs == exceptions@,
        word_rev == wrev(*word), !is_expt_match,
        cs.len() > 0 ==> !is_cont_match, cs.len() == 0 ==> is_cont_match,
        /*#envs.inv.no_context_matched_so_far C03*/ any_env(*self, ctx_of(*self), 0, *word, start_pos, end_pos, inc, true) == any_env(*self, ctx_of(*self), it0.index@, *word, start_pos, end_pos, inc, true),
//@ end
//@ loop_ghost_before SubRule::match_contexts_and_exceptions 1
    assert(cs.len() == 0 ==> is_cont_match);
    assert(/*#envs.contexts_scanned C03*/ cs.len() > 0 ==> any_env(*self, ctx_of(*self), 0, *word, start_pos, end_pos, inc, true) == Ok::<bool, RuleRuntimeError>(is_cont_match));
//@ end
//@ loop SubRule::match_contexts_and_exceptions 1 iter=it1
    invariant_except_break
        it1.seq() == xs, !is_expt_match,
        /*#envs.inv.no_exception_matched_so_far C03*/ any_env(*self, exc_of(*self), 0, *word, start_pos, end_pos, inc, false) == any_env(*self, exc_of(*self), it1.index@, *word, start_pos, end_pos, inc, false),
//@ end
//@ proof_before_tail SubRule::match_contexts_and_exceptions
    assert(/*#envs.exceptions_scanned C03*/ any_env(*self, exc_of(*self), 0, *word, start_pos, end_pos, inc, false) == Ok::<bool, RuleRuntimeError>(is_expt_match));
    assert(ctx_of(*self).len() == cs.len());
//@ end

// =================================================================== the two environment halves
//@ contract SubRule::context_match ret=r
    requires *old(state_index) < states@.len(),
    ensures (r, *final(state_index) as int, *final(pos)) == step_spec(*self, states@, *old(state_index) as int, *word, *old(pos), forwards, ins_match_before),
        // ASSUMED about the opaque element matcher: it never moves the state index backwards or past the end of the list
        *old(state_index) <= *final(state_index) <= states@.len(), *final(state_index) < usize::MAX,
//@ end
//@ attr SubRule::match_before_env
#[verifier::loop_isolation(false)]
#[verifier::allow_complex_invariants]
//@ end
//@ attr SubRule::match_after_env
#[verifier::loop_isolation(false)]
#[verifier::allow_complex_invariants]
//@ end
//@ contract SubRule::match_before_env ret=r
    ensures /*#envs.before_half_every_element_in_sequence C03*/ r == before_spec(*self, states@, *word_rev, *pos, ins_match_before, is_context),
//@ end
//@ contract SubRule::match_after_env ret=r
    ensures /*#envs.after_half_every_element_in_sequence C03*/ r == after_spec(*self, states@, *word, *pos, ins_match_before, inc, is_context),
//@ end
//@ loop_ghost_before SubRule::match_before_env 0
    let ghost p0 = start_pos;
//@ end
//@ loop SubRule::match_before_env 0
    invariant_except_break
        si <= states@.len() + 1, is_context ==> is_match,
        /*#envs.inv.before_remaining_elements C03*/ scan(*self, states@, 0, *word_rev, p0, false, ins_match_before, is_context, acc0(states@, is_context))
            == scan(*self, states@, si as int, *word_rev, start_pos, false, ins_match_before, is_context, is_match),
    decreases states@.len() + 1 - si,
//@ end
//@ loop_ghost_before SubRule::match_after_env 0
    let ghost p0 = start_pos;
//@ end
//@ loop SubRule::match_after_env 0
    invariant_except_break
        si <= states@.len() + 1, is_context ==> is_match,
        /*#envs.inv.after_remaining_elements C03*/ scan(*self, states@, 0, *word, p0, true, ins_match_before, is_context, acc0(states@, is_context))
            == scan(*self, states@, si as int, *word, start_pos, true, ins_match_before, is_context, is_match),
    decreases states@.len() + 1 - si,
//@ end
