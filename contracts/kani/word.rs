// ---- helpers to build Words / Syllables in harnesses (Word has a private field)
pub(crate) fn mk_syll(segs: &[Segment], stress: StressKind, tone: u16) -> Syllable {
    let mut s = Syllable::new();
    let mut i = 0;
    while i < segs.len() { s.segments.push_back(segs[i]); i += 1; }
    s.stress = stress;
    s.tone = tone;
    s
}
pub(crate) fn mk_word(sylls: Vec<Syllable>) -> Word { Word { syllables: sylls, americanist: false } }
pub(crate) fn any_stress() -> StressKind {
    let k: u8 = kani::any();
    kani::assume(k < 3);
    match k { 0 => StressKind::Primary, 1 => StressKind::Secondary, _ => StressKind::Unstressed }
}
