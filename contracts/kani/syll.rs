// ---- K4: Syllable::apply_syll_mods against the manual's stress table; frames for C14
use crate::seg::verif_kani::{any_wf_segment, pos0};
use crate::parser::verif_kani::{any_supra_slot, slot_truth, any_binding};
use crate::word::verif_kani::{mk_syll, any_stress};

/// manual, "Stress" table + property text: [+stress] alone gives primary; [-sec] only demotes a secondary
pub(crate) fn stress_target(st: Option<bool>, sec: Option<bool>, s: StressKind) -> Option<StressKind> {
    match (st, sec) {
        (None, None) => Some(s),
        (None, Some(true)) => Some(StressKind::Secondary),
        (None, Some(false)) => Some(if s == StressKind::Secondary { StressKind::Unstressed } else { s }),
        (Some(true), None) => Some(StressKind::Primary),
        (Some(false), None) => Some(StressKind::Unstressed),
        (Some(true), Some(true)) => Some(StressKind::Secondary),
        (Some(true), Some(false)) => Some(StressKind::Primary),
        (Some(false), Some(false)) => Some(StressKind::Unstressed),
        (Some(false), Some(true)) => None,
    }
}
pub(crate) fn stress_ok(st: Option<bool>, sec: Option<bool>, s: StressKind) -> bool {
    (match st { Some(b) => b == (s != StressKind::Unstressed), None => true })
        && (match sec { Some(b) => b == (s == StressKind::Secondary), None => true })
}

//% props=C05,C14,C08 tier=quick kind=P covers=apply_syll_mods.* pair=Syllable::apply_syll_mods clause="stress/tone setting table for all 3 stresses x 5^2 slots x tone; segments untouched; contradictions are SecStrPosStrNeg"
#[kani::proof]
#[kani::unwind(5)]
fn k4_apply_syll_mods() {
    let a = any_wf_segment();
    let b = any_wf_segment();
    let s0 = any_stress();
    let t0: u16 = kani::any();
    let mut sy = mk_syll(&[a, b], s0, t0);
    let (al, bound) = any_binding();
    let mods = SupraSegs { stress: [any_supra_slot(), any_supra_slot()], length: [None, None], tone: kani::any() };
    let r = sy.apply_syll_mods(&al, &mods, pos0());
    let st = slot_truth(&mods.stress[0], &bound);
    let sec = slot_truth(&mods.stress[1], &bound);
    // which slots does the code evaluate?  all present ones
    let unbound = st == Some(None) || sec == Some(None);
    assert!(sy.segments.len() == 2 && sy.segments[0] == a && sy.segments[1] == b, "C14: prosodic modifiers never touch segments");
    if !unbound {
        match stress_target(st.flatten(), sec.flatten(), s0) {
            Some(t) => {
                assert!(r.is_ok(), "errors only when documented");
                assert!(sy.stress == t, "stress setting table");
                assert!(stress_ok(st.flatten(), sec.flatten(), sy.stress), "set-then-match: the same modifier matches the result");
                assert!(sy.tone == match mods.tone { Some(t) => t, None => t0 }, "tone: set whole tone or leave alone");
            }
            None => {
                assert!(matches!(r, Err(RuleRuntimeError::SecStrPosStrNeg(_))), "[-stress, +sec.stress] is an error");
                assert!(sy.stress == s0 && sy.tone == t0);
            }
        }
    } else {
        assert!(matches!(r, Err(RuleRuntimeError::AlphaUnknown(_))));
    }
    kani::cover!(r.is_ok() && sy.stress != s0);
}

//% props=C05,C14 tier=quick kind=P covers=assumed.derive_eq pair=<StressKind as PartialEq>::eq clause="derived == on StressKind is variant identity (assumed structural in the Verus kernel supras)"
#[kani::proof]
#[kani::unwind(3)]
fn k0_stresskind_eq_is_structural() {
    let a = any_stress();
    let b = any_stress();
    let ia = match a { StressKind::Primary => 0, StressKind::Secondary => 1, StressKind::Unstressed => 2 };
    let ib = match b { StressKind::Primary => 0, StressKind::Secondary => 1, StressKind::Unstressed => 2 };
    assert!((a == b) == (ia == ib));
}
