//@ kernel follow serves=C13
//@ include specenv.v.rs
//@ item src/parser.rs impl Parser members=peek_expect,eat,eat_expect,get_empty,get_output_els,get_output
//@ stub Parser::get_output_els

//@ pre
//@ end
//@ post
/// the parser's cursor invariant between grammar functions: the cursor is on a token of the list
spec fn cursor_ok(p: Parser) -> bool { p.pos < p.token_list@.len() && p.token_list@.len() < usize::MAX - 2 }
//@ end
//@ contract Parser::peek_expect ret=r
    ensures r == (self.curr_tkn.kind == knd),
//@ end
//@ contract Parser::eat ret=r
    requires old(self).pos < usize::MAX - 1,
    ensures r == old(self).curr_tkn, advanced(*old(self), *final(self)),
//@ end
//@ proof_start Parser::eat
    axiom_token_clone();
//@ end
//@ contract Parser::eat_expect ret=r
    requires old(self).pos < usize::MAX - 1,
    ensures (old(self).curr_tkn.kind == knd) ==> (r == Some(old(self).curr_tkn) && advanced(*old(self), *final(self))),
        !(old(self).curr_tkn.kind == knd) ==> (r is None && *final(self) == *old(self)),
//@ end
//@ contract Parser::get_empty ret=r
    requires old(self).pos < usize::MAX - 1,
    ensures (old(self).curr_tkn.kind == TokenKind::Star || old(self).curr_tkn.kind == TokenKind::EmptySet) ==> (r is Some && advanced(*old(self), *final(self))),
        !(old(self).curr_tkn.kind == TokenKind::Star || old(self).curr_tkn.kind == TokenKind::EmptySet) ==> (r is None && *final(self) == *old(self)),
//@ end
//@ contract Parser::get_output_els ret=r
    // ASSUMED about the opaque element parser: it leaves the cursor on a token of the list and does not touch the list
    ensures final(self).pos < final(self).token_list@.len() && final(self).token_list == old(self).token_list,
        // ASSUMED (read off the code: DeleteErr / MetathErr are constructed in get_output only)
        r matches Err(e) ==> !(e is DeleteErr) && !(e is MetathErr),
//@ end
//@ attr Parser::get_output
#[verifier::exec_allows_no_decreases_clause]
#[verifier::loop_isolation(false)]
//@ end
//@ contract Parser::get_output ret=r
    requires cursor_ok(*old(self)),
    ensures
        /*#follow.a_comment_may_follow_a_deletion_output C13*/ r matches Err(RuleSyntaxError::DeleteErr(t)) ==> t.kind != TokenKind::Comment,
        /*#follow.a_comment_may_follow_a_metathesis_output C13*/ r matches Err(RuleSyntaxError::MetathErr(t)) ==> t.kind != TokenKind::Comment,
        // `//` is the documented synonym of `|`: wherever `|` may follow, `//` may
        /*#follow.a_double_slash_may_follow_a_deletion_output C13*/ r matches Err(RuleSyntaxError::DeleteErr(t)) ==> t.kind != TokenKind::DubSlash,
        /*#follow.a_double_slash_may_follow_a_metathesis_output C13*/ r matches Err(RuleSyntaxError::MetathErr(t)) ==> t.kind != TokenKind::DubSlash,
//@ end
//@ loop Parser::get_output 0
    invariant self.pos < self.token_list@.len() || self.curr_tkn.kind == TokenKind::Eol, self.token_list == old(self).token_list,
        self.token_list@.len() < usize::MAX - 2, self.pos <= self.token_list@.len(),
//@ end
//@ proof_start Parser::get_output
    axiom_token_clone();
//@ end
