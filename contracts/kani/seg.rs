// ---- K2: Segment accessors against the abstract view (three bytes + four place sub-nodes).
use crate::place::verif_kani::{any_place, v_lab, v_cor, v_dor, v_phr, wf_place};

pub(crate) const NODES7: [NodeKind; 7] = [NodeKind::Root, NodeKind::Manner, NodeKind::Laryngeal, NodeKind::Labial, NodeKind::Coronal, NodeKind::Dorsal, NodeKind::Pharyngeal];

/// documented (node, mask) table, feature order of the manual (src/seg.rs:113-116, src/place.rs:13-16)
pub(crate) const MASK_TABLE: [(NodeKind, u8); 26] = [
    (NodeKind::Root, 0b100), (NodeKind::Root, 0b010), (NodeKind::Root, 0b001),
    (NodeKind::Manner, 0x80), (NodeKind::Manner, 0x40), (NodeKind::Manner, 0x20), (NodeKind::Manner, 0x10),
    (NodeKind::Manner, 0x08), (NodeKind::Manner, 0x04), (NodeKind::Manner, 0x02), (NodeKind::Manner, 0x01),
    (NodeKind::Laryngeal, 0b100), (NodeKind::Laryngeal, 0b010), (NodeKind::Laryngeal, 0b001),
    (NodeKind::Labial, 0b10), (NodeKind::Labial, 0b01),
    (NodeKind::Coronal, 0b10), (NodeKind::Coronal, 0b01),
    (NodeKind::Dorsal, 0b100000), (NodeKind::Dorsal, 0b010000), (NodeKind::Dorsal, 0b001000),
    (NodeKind::Dorsal, 0b000100), (NodeKind::Dorsal, 0b000010), (NodeKind::Dorsal, 0b000001),
    (NodeKind::Pharyngeal, 0b10), (NodeKind::Pharyngeal, 0b01),
];

pub(crate) fn any_segment() -> Segment {
    Segment { root: kani::any(), manner: kani::any(), laryngeal: kani::any(), place: any_place() }
}
pub(crate) fn wf_seg(s: &Segment) -> bool { s.root <= 7 && s.laryngeal <= 7 && wf_place(&s.place) }
pub(crate) fn any_wf_segment() -> Segment { let s = any_segment(); kani::assume(wf_seg(&s)); s }

pub(crate) fn v_node(s: &Segment, n: NodeKind) -> Option<u8> {
    match n {
        NodeKind::Root => Some(s.root), NodeKind::Manner => Some(s.manner), NodeKind::Laryngeal => Some(s.laryngeal),
        NodeKind::Labial => v_lab(&s.place), NodeKind::Coronal => v_cor(&s.place),
        NodeKind::Dorsal => v_dor(&s.place), NodeKind::Pharyngeal => v_phr(&s.place),
        NodeKind::Place => None,
    }
}
pub(crate) fn width(n: NodeKind) -> u8 {
    match n { NodeKind::Root | NodeKind::Laryngeal => 0b111, NodeKind::Manner => 0xff, NodeKind::Dorsal => 0b111111, NodeKind::Place => 0, _ => 0b11 }
}
pub(crate) fn any_node7() -> NodeKind {
    let k: u8 = kani::any();
    kani::assume(k < 7);
    NODES7[k as usize]
}
pub(crate) fn node_val_ok(n: NodeKind, v: Option<u8>) -> bool {
    match n {
        NodeKind::Root | NodeKind::Manner | NodeKind::Laryngeal => v.is_some(),
        NodeKind::Place => false,
        _ => match v { Some(x) => x & !width(n) == 0, None => true },
    }
}

//% props=C18,C08 tier=quick kind=P covers=set_node.*,get_node.*,is_node_some.*,is_node_none.*,law.get_after_set_node,law.absent_reads_absent,law.node_match_after_set,law.set_node_frame,law.wf_set_node pair=Segment::set_node,Segment::get_node,Segment::is_node_some,Segment::is_node_none
#[kani::proof]
#[kani::unwind(9)]
fn k2_set_node_get_node() {
    let old = any_segment();
    let node = any_node7();
    let value: Option<u8> = kani::any();
    kani::assume(node_val_ok(node, value));
    let mut s = old;
    s.set_node(node, value);
    assert!(s.get_node(node) == value, "get-after-set (node)");
    assert!(s.is_node_some(node) == value.is_some() && s.is_node_none(node) == value.is_none(), "absent reads back absent");
    assert!(s.node_match(node, value), "node_match after set");
    let mut i = 0;
    while i < 7 {
        let o = NODES7[i];
        assert!(v_node(&s, o) == if o == node { value } else { v_node(&old, o) }, "whole-view postcondition of set_node");
        assert!(s.get_node(o) == v_node(&s, o), "get_node equals the view");
        i += 1;
    }
    let strict = match node { NodeKind::Root | NodeKind::Laryngeal => value.unwrap() <= 7, _ => true };
    assert!(!(wf_seg(&old) && strict) || wf_seg(&s), "wf preserved by set_node");
    kani::cover!(value.is_none());
    kani::cover!(wf_seg(&old) && value.is_some());
}

//% props=C18,C04,C08 tier=quick kind=P covers=set_feat.*,get_feat.*,law.set_pos_then_match,law.set_neg_then_match,law.set_neg_absent_noop,law.set_feat_frame_nodes,law.wf_set_feat,law.set_feat_other_bits_kept,law.created_node_others_negative pair=Segment::set_feat,Segment::feat_match,Segment::get_feat
#[kani::proof]
#[kani::unwind(9)]
fn k2_set_feat_laws() {
    let old = any_segment();
    let node = any_node7();
    let feat: u8 = kani::any();
    let pos: bool = kani::any();
    kani::assume(feat & !width(node) == 0);
    let mut s = old;
    s.set_feat(node, feat, pos);
    let before = v_node(&old, node);
    let after = v_node(&s, node);
    if pos {
        assert!(after == Some(before.unwrap_or(0) | feat), "positive: creates the node with other features negative / keeps other bits");
        assert!(s.feat_match(node, feat, true), "set-then-match (+)");
    } else {
        match before {
            Some(n) => { assert!(after == Some(n & !feat), "negative on present node clears exactly feat"); assert!(s.feat_match(node, feat, false), "set-then-match (-)"); }
            None => { assert!(s == old, "negative feature of an absent sub-node does nothing"); assert!(!s.feat_match(node, feat, false), "absent node matches neither"); }
        }
    }
    let mut i = 0;
    while i < 7 {
        let o = NODES7[i];
        if o != node { assert!(v_node(&s, o) == v_node(&old, o), "set_feat frame: every other node unchanged"); }
        i += 1;
    }
    assert!(s.get_feat(node, feat) == after.map(|n| n & feat), "get_feat equals the view");
    assert!(!wf_seg(&old) || wf_seg(&s), "wf preserved by set_feat");
    kani::cover!(pos && before.is_none());
    kani::cover!(!pos && before.is_none());
}

//% props=C18,C04 tier=quick kind=P covers=feat_match.*,node_match.*,is_place_some,is_place_none,get_place_sub_nodes pair=Segment::feat_match,Segment::node_match,Segment::is_place_some,Segment::is_place_none,Segment::get_place_sub_nodes
#[kani::proof]
#[kani::unwind(9)]
fn k2_match_tables() {
    let s = any_segment();
    let node = any_node7();
    let mask: u8 = kani::any();
    let pos: bool = kani::any();
    let mv: Option<u8> = kani::any();
    let exp = match v_node(&s, node) { None => false, Some(n) => if pos { n & mask == mask } else { n & mask == 0 } };
    assert!(s.feat_match(node, mask, pos) == exp, "feat_match truth table (absent node matches neither)");
    assert!(s.node_match(node, mv) == (v_node(&s, node) == mv), "node_match truth table");
    assert!(s.is_place_some() == s.place.raw_for_verif().is_some() && s.is_place_none() != s.is_place_some(), "is_place_*");
    assert!(s.get_place_sub_nodes() == (v_lab(&s.place), v_cor(&s.place), v_dor(&s.place), v_phr(&s.place)), "get_place_sub_nodes equals the view");
}

//% props=C04,C18 tier=quick kind=P covers=to_node_mask.*,ftype.*,nodekind.* pair=FType::to_node_mask,FType::from_usize,NodeKind::from_usize
#[kani::proof]
#[kani::unwind(28)]
fn k2_feature_table() {
    let mut i = 0;
    while i < 26 {
        let (n, m) = FType::from_usize(i).to_node_mask();
        assert!(n == MASK_TABLE[i].0 && m == MASK_TABLE[i].1, "feature -> (node, bit) equals the documented table");
        assert!(FType::from_usize(i) as usize == i, "FType::from_usize is the identity on indices");
        i += 1;
    }
    let mut k = 0;
    while k < 8 {
        assert!(NodeKind::from_usize(k) as usize == k);
        assert!(NodeType::from_usize(k) as usize == k);
        k += 1;
    }
    assert!(FType::count() == 26 && NodeKind::count() == 8 && NodeType::count() == 8);
}
