"""Verus kernel builder: cuts named items out of /repo/src verbatim, splices
contract clauses from an overlay file, emits one self-contained Verus file.

Overlay directives (lines starting with `//@`), see DESIGN.md 2.1:

  //@ kernel <name> serves=C18,C08
  //@ item <file> <kind> <name...> [members=a,b|*] [exclude=a,b] [as_spec_too]
  //@ pre ... //@ end            raw Verus text emitted before the extracted items
  //@ post ... //@ end           raw Verus text emitted after them
  //@ contract <Type::fn|fn> [ret=<name>] ... //@ end
                                 text spliced between the header and the body `{`
  //@ loop <Type::fn|fn> <ordinal> ... //@ end
                                 text spliced before the loop body `{`
  //@ loop_each <fn> <header regex> / loop_each_proof_start .. / loop_each_proof_end ..   (keyed on the loop header, any ordinal)
  //@ proof_start <fn> / proof_end <fn> / proof_before_tail <fn> / loop_proof_start <fn> <k> / loop_proof_end <fn> <k>
                                 `proof { ... }` text spliced as first/last statement

Obligation tags inside contract / loop / post text: `/*#<id> <C..,C..>*/`.

Allowed edits of extracted text (logged): R1 splice, R2 debug_assert_eq/ne,
R3 two-element slice patterns on a Copy array, R4 `.iter().enumerate()` loops,
R5 attribute / derive trimming, R7 `pub(crate)` -> `pub` on struct/enum items.  Anything else -> ExtractError (exit 2).
"""
import os
import re
import sys

sys.path.insert(0, os.path.dirname(__file__))
import rustsrc as rs  # noqa: E402


class ExtractError(Exception):
    pass


DROP_DERIVES = {'Deserialize', 'Serialize', 'Debug', 'Hash', 'serde::Deserialize', 'serde::Serialize'}
TAG_RE = re.compile(r'/\*#([A-Za-z0-9_.\-]+)((?:\s+C\d+(?:,C\d+)*)?)\*/')


class Overlay:
    def __init__(self, path):
        self.path = path
        self.name = None
        self.serves = []
        self.items = []       # dicts
        self.pre = []
        self.post = []
        self.contracts = {}   # fn -> dict(ret=..., text=...)
        self.loops = {}       # (fn, k) -> text
        self.proofs = {}      # (kind, fn, k) -> text
        self.attrs = {}       # fn -> attribute text spliced in front of the fn
        self.stubs = set()    # fns emitted as signature + external_body (R6): body dropped
        self.aux_fns = []          # (fn name, serves): proof / spec / exec fns written in pre/post blocks, with the serves= of their overlay
        self.loop_templates = {}   # fn -> [dict(kind, regex, text, line)]: loop contracts keyed on the loop HEADER, not its ordinal
        self._parse()

    def _parse(self):
        lines = open(self.path, encoding='utf-8').read().split('\n')
        i = 0
        while i < len(lines):
            ln = lines[i]
            if not ln.startswith('//@'):
                if ln.strip() and not ln.strip().startswith('//'):
                    raise ExtractError('%s:%d: text outside a directive block' % (self.path, i + 1))
                i += 1
                continue
            parts = ln[3:].split()
            if not parts:
                i += 1
                continue
            d = parts[0]
            if d == 'include':
                inc = Overlay(os.path.join(os.path.dirname(self.path), parts[1]))
                self.items += inc.items
                self.pre += inc.pre
                self.post += inc.post
                self.contracts.update(inc.contracts)
                self.loops.update(inc.loops)
                self.proofs.update(inc.proofs)
                self.attrs.update(inc.attrs)
                self.stubs |= inc.stubs
                self.aux_fns += inc.aux_fns
                for k_, v_ in inc.loop_templates.items():
                    self.loop_templates.setdefault(k_, []).extend(v_)
                i += 1
            elif d == 'kernel':
                self.name = parts[1]
                for p in parts[2:]:
                    if p.startswith('serves='):
                        self.serves = p[7:].split(',')
                i += 1
            elif d == 'stub':
                self.stubs.add(parts[1])
                i += 1
            elif d == 'item':
                opts = {}
                rest = []
                for p in parts[1:]:
                    if p.startswith('as='):
                        opts['as'] = p[3:]
                    elif '=' in p and p.split('=')[0] in ('members', 'exclude'):
                        k, v = p.split('=', 1)
                        opts[k] = v.split(',')
                    elif p in ('strip_derives', 'noderive'):
                        opts['noderive'] = True
                    else:
                        rest.append(p)
                self.items.append(dict(file=rest[0], kind=rest[1], name=' '.join(rest[2:]), serves=list(self.serves), **opts))
                i += 1
            elif d in ('pre', 'post', 'contract', 'loop', 'proof_start', 'proof_end', 'loop_proof_start', 'loop_proof_end', 'loop_proof_after', 'loop_ghost_before', 'attr', 'proof_at', 'proof_before_tail', 'loop_each', 'loop_each_proof_start', 'loop_each_proof_end', 'loop_each_ghost_before'):
                j = i + 1
                buf = []
                while j < len(lines) and lines[j].strip() != '//@ end':
                    buf.append(lines[j])
                    j += 1
                if j >= len(lines):
                    raise ExtractError('%s:%d: unterminated %s' % (self.path, i + 1, d))
                text = '\n'.join(buf)
                src_line = i + 2
                if d in ('pre', 'post'):
                    for mm in re.finditer(r'\bfn\s+(\w+)', rs.mask(text)):
                        self.aux_fns.append((mm.group(1), list(self.serves)))
                if d == 'pre':
                    self.pre.append((text, src_line))
                elif d == 'post':
                    self.post.append((text, src_line))
                elif d == 'contract':
                    ret = None
                    for p in parts[2:]:
                        if p.startswith('ret='):
                            ret = p[4:]
                    self.contracts[parts[1]] = dict(ret=ret, text=text, line=src_line)
                elif d == 'loop':
                    it_name = None
                    for p in parts[3:]:
                        if p.startswith('iter='):
                            it_name = p[5:]
                    self.loops[(parts[1], int(parts[2]))] = dict(text=text, line=src_line, iter=it_name)
                elif d in ('loop_each', 'loop_each_proof_start', 'loop_each_proof_end', 'loop_each_ghost_before'):
                    # //@ loop_each <fn> <regex over the loop header, i.e. the text from `while`/`for` up to `{`>
                    # the block applies to EVERY loop of <fn> whose header matches; $1..$9 stand for the regex groups
                    self.loop_templates.setdefault(parts[1], []).append(dict(kind=d, regex=ln[3:].split(None, 2)[2].strip(), text=text, line=src_line))
                elif d == 'proof_at':
                    # //@ proof_at <fn> <nth> <anchor text...>
                    self.proofs[('proof_at', parts[1], int(parts[2]))] = dict(text=text, line=src_line, anchor=' '.join(parts[3:]))
                elif d == 'attr':
                    self.attrs[parts[1]] = text
                elif d in ('proof_start', 'proof_end', 'proof_before_tail'):
                    self.proofs[(d, parts[1], None)] = dict(text=text, line=src_line)
                else:
                    self.proofs[(d, parts[1], int(parts[2]))] = dict(text=text, line=src_line)
                i = j + 1
            else:
                raise ExtractError('%s:%d: unknown directive %s' % (self.path, i + 1, d))


# ---------------------------------------------------------------- rewrites


def r5_attrs(attrs: str, log, where, noderive=False):
    """Trim attributes / doc comments in front of an item."""
    out = []
    msk = rs.mask(attrs)
    i = 0
    # cut into attribute chunks
    for m in re.finditer(r'#\[', msk):
        pass
    pos = 0
    res = []
    while True:
        k = msk.find('#[', pos)
        if k < 0:
            break
        e = rs.match_close(msk, k + 1) + 1
        a = attrs[k:e]
        inner = a[2:-1].strip()
        if inner.startswith('derive'):
            names = [x.strip() for x in inner[inner.index('(') + 1:inner.rindex(')')].split(',') if x.strip()]
            keep = [] if noderive else [x for x in names if x not in DROP_DERIVES]
            dropped = names if noderive else [x for x in names if x in DROP_DERIVES]
            if dropped:
                log.append(dict(rule='R5', where=where, edit='derive list drops ' + ','.join(dropped)))
            if keep:
                res.append('#[derive(' + ', '.join(keep) + ')]')
        elif inner.startswith('inline') or inner.startswith('allow') or inner.startswith('doc'):
            log.append(dict(rule='R5', where=where, edit='attribute dropped: ' + a))
        else:
            raise ExtractError('%s: attribute %s not covered by R5' % (where, a))
        pos = e
    # doc comments are simply not re-emitted
    if '///' in attrs:
        log.append(dict(rule='R5', where=where, edit='doc comment dropped'))
    return ('\n'.join(res) + '\n') if res else ''


R2_RE = re.compile(r'\bdebug_assert_(eq|ne)!\s*\(')


def r2_debug_assert(text: str, log, where):
    """debug_assert_eq!(a, b, ..) -> debug_assert!((a) == (b), ..)"""
    while True:
        msk = rs.mask(text)
        m = R2_RE.search(msk)
        if not m:
            return text
        op = '==' if m.group(1) == 'eq' else '!='
        o = m.end() - 1
        c = rs.match_close(msk, o)
        args = rs.split_top_commas(text[o + 1:c])
        if len(args) < 2:
            raise ExtractError('%s: R2 needs two arguments' % where)
        a, b = args[0].strip(), args[1].strip()
        rest = ''.join(',' + x for x in args[2:])
        new = '/*@R2<*/debug_assert!((%s) %s (%s)%s)/*@R2>*/' % (a, op, b, rest)
        log.append(dict(rule='R2', where=where, edit='%s -> debug_assert!(.. %s ..)' % (text[m.start():o], op)))
        text = text[:m.start()] + new + text[c + 1:]


def r2_inverse(text: str) -> str:
    pat = re.compile(r'/\*@R2<\*/debug_assert!\(\((.*?)\) (==|!=) \((.*?)\)((?:,.*?)?)\)/\*@R2>\*/', re.S)

    def back(m):
        return 'debug_assert_%s!(%s, %s%s)' % ('eq' if m.group(2) == '==' else 'ne', m.group(1), m.group(3),
                                               m.group(4) and (',' + m.group(4)[1:]))
    return pat.sub(back, text)


R4_RE = re.compile(r'\bfor \((\w+), (\w+)\) in ([\w.\[\]]+?)\.iter\(\)\.enumerate\(\) \{')


def r4_enumerate(text: str, log, where):
    """for (i, x) in E.iter().enumerate() {  ->  for i in 0..E.len() { let x = &E[i];
    (`_` for x: no binding emitted)."""
    def fwd(m):
        i, x, e = m.group(1), m.group(2), m.group(3)
        log.append(dict(rule='R4', where=where, edit='for (%s, %s) in %s.iter().enumerate()' % (i, x, e)))
        bind = '' if x == '_' else ' let %s = &%s[%s];' % (x, e, i)
        return '/*@R4<%s*/for %s in 0..%s.len() {%s/*@R4>*/' % (x, i, e, bind)
    msk = rs.mask(text)
    out, pos = [], 0
    for m in R4_RE.finditer(msk):
        out.append(text[pos:m.start()])
        out.append(fwd(R4_RE.match(text, m.start())))
        pos = m.end()
    out.append(text[pos:])
    return ''.join(out)


def r4_inverse(text: str) -> str:
    pat = re.compile(r'/\*@R4<(\w+)\*/for (\w+) in 0\.\.([\w.\[\]]+?)\.len\(\) \{(?: let (\w+) = &([\w.\[\]]+?)\[(\w+)\];)?/\*@R4>\*/')

    def back(m):
        x, i, e = m.group(1), m.group(2), m.group(3)
        if x != '_' and (m.group(4) != x or m.group(5) != e or m.group(6) != i):
            raise ExtractError('R4 inverse mismatch')
        return 'for (%s, %s) in %s.iter().enumerate() {' % (i, x, e)
    return pat.sub(back, text)


def r3_slice_patterns(text: str, log, where):
    """match E { [p, q] => .. }  on a two-element array -> match (E[0], E[1]) { (p, q) => .. }"""
    while True:
        msk = rs.mask(text)
        found = None
        for m in re.finditer(r'\bmatch\b', msk):
            j = m.end()
            # scrutinee runs to the first `{` at depth 0
            k = j
            while k < len(msk) and msk[k] != '{':
                if msk[k] in '([':
                    k = rs.match_close(msk, k)
                k += 1
            if k >= len(msk):
                continue
            scrut = text[j:k].strip()
            close = rs.match_close(msk, k)
            # first arm token
            a = k + 1
            while a < close and msk[a].isspace():
                a += 1
            if msk[a] == '[' and not text[m.start() - 8:m.start()].endswith('/*@R3<*/'):
                found = (m.start(), j, k, close, scrut)
                break
        if not found:
            return text
        ms, j, k, close, scrut = found
        if not re.fullmatch(r'[\w.]+', scrut):
            raise ExtractError('%s: R3 scrutinee %r is not a plain path' % (where, scrut))
        # rewrite arm patterns: `[` at arm start, depth 1 inside the match braces
        body = text[k + 1:close]
        bm = msk[k + 1:close]
        out = []
        pos = 0
        idx = 0
        arm_start = True
        n_arms = 0
        while idx < len(bm):
            ch = bm[idx]
            if arm_start and ch == '[':
                e = rs.match_close(bm, idx)
                elems = rs.split_top_commas(body[idx + 1:e])
                if len(elems) != 2:
                    raise ExtractError('%s: R3 only handles two-element patterns' % where)
                out.append(body[pos:idx] + '(' + body[idx + 1:e] + ')')
                pos = e + 1
                idx = e + 1
                arm_start = False
                n_arms += 1
                continue
            if ch in rs.OPEN:
                e = rs.match_close(bm, idx)
                # a `{..}` arm body ends the arm (optionally followed by a comma)
                if ch == '{' and not arm_start:
                    idx = e + 1
                    arm_start = True
                    continue
                idx = e + 1
                continue
            if ch == ',':
                arm_start = True
            elif not ch.isspace():
                if arm_start and ch != '[':
                    # some other pattern (e.g. `_`): leave
                    arm_start = False
            idx += 1
        out.append(body[pos:])
        new = text[:ms] + '/*@R3<*/match (%s[0], %s[1]) ' % (scrut, scrut) + '{' + ''.join(out) + '}/*@R3>*/' + text[close + 1:]
        log.append(dict(rule='R3', where=where, edit='match %s { [p, q] => .. } -> match (%s[0], %s[1]) { (p, q) => .. } (%d arms)' % (scrut, scrut, scrut, n_arms)))
        text = new


def r3_inverse(text: str) -> str:
    while True:
        s = text.find('/*@R3<*/')
        if s < 0:
            return text
        msk = rs.mask(text)
        m = re.match(r'match \((\w[\w.]*)\[0\], ([\w.]+)\[1\]\) \{', text[s + 8:])
        if not m or m.group(1) != m.group(2):
            raise ExtractError('R3 inverse: bad scrutinee')
        k = s + 8 + m.end() - 1
        close = rs.match_close(msk, k)
        if not text.startswith('/*@R3>*/', close + 1):
            raise ExtractError('R3 inverse: missing end marker')
        body = text[k + 1:close]
        bm = msk[k + 1:close]
        out, pos, idx, arm_start = [], 0, 0, True
        while idx < len(bm):
            ch = bm[idx]
            if arm_start and ch == '(':
                e = rs.match_close(bm, idx)
                out.append(body[pos:idx] + '[' + body[idx + 1:e] + ']')
                pos = e + 1
                idx = e + 1
                arm_start = False
                continue
            if ch in rs.OPEN:
                e = rs.match_close(bm, idx)
                if ch == '{' and not arm_start:
                    idx = e + 1
                    arm_start = True
                    continue
                idx = e + 1
                continue
            if ch == ',':
                arm_start = True
            elif not ch.isspace():
                arm_start = False if arm_start else arm_start
            idx += 1
        out.append(body[pos:])
        # the original scrutinee is whatever stood between `match` and `{`; only a
        # single space on either side is reproduced, which is what R3 requires.
        text = text[:s] + 'match %s {' % m.group(1) + ''.join(out) + '}' + text[close + 1 + 8:]


# ---------------------------------------------------------------- emission

SPL_OPEN = '/*@+*/'
SPL_CLOSE = '/*@-*/'


PROBE = False   # reachability probe (thorough tier): `assert(false)` at the start of every function under contract -- each MUST fail


def splice(s):
    return SPL_OPEN + s + SPL_CLOSE


def strip_splices(text: str) -> str:
    out = []
    pos = 0
    while True:
        a = text.find(SPL_OPEN, pos)
        if a < 0:
            out.append(text[pos:])
            return ''.join(out)
        b = text.find(SPL_CLOSE, a)
        if b < 0:
            raise ExtractError('unterminated splice marker')
        out.append(text[pos:a])
        pos = b + len(SPL_CLOSE)


def transform_fn(it: rs.Item, qual: str, ov: Overlay, log, used):
    """Return emitted text for one fn item (header + body), verbatim except R1-R4."""
    where = '%s:%d %s' % (it.path, it.lines[0], qual)
    header, body = it.header, it.body
    con = ov.contracts.get(qual)
    if qual in ov.stubs:
        # R6: signature verbatim, body NOT extracted; contract is an assumption (listed in evidence)
        used.add(('stub', qual, None))
        log.append(dict(rule='R6', where=where, edit='callee declared external_body with an ASSUMED contract; body not extracted'))
        ctext = ''
        if con:
            used.add(('contract', qual, None))
            hm = rs.mask(header)
            if con['ret']:
                p = hm.find('(')
                pc = rs.match_close(hm, p)
                arrow = hm.find('->', pc)
                rtype = header[arrow + 2:]
                header = header[:arrow + 2] + splice(' (%s:' % con['ret']) + rtype.rstrip() + splice(')') + rtype[len(rtype.rstrip()):]
            ctext = splice('\n' + con['text'] + '\n')
        return splice('#[verifier::external_body]\n') + header + ctext + splice('{ unimplemented!() }') + '/*@STUB*/'
    # --- rewrites R2-R4 first (they keep the number and order of loops)
    body = r2_debug_assert(body, log, where)
    body = r3_slice_patterns(body, log, where)
    body = r4_enumerate(body, log, where)
    # --- then the ghost splices (R1)
    bm = rs.mask(body)
    loops = rs.find_loops(bm, 1, len(body) - 1)
    inserts = []  # (index, text)
    for k, (kw, s, bo) in enumerate(loops):
        lp = ov.loops.get((qual, k))
        tps = tpe = tgb = None
        if not lp and ov.loop_templates.get(qual):
            hdr_txt = ' '.join(body[s:bo].split())
            for t in ov.loop_templates[qual]:
                mt = re.fullmatch(t['regex'], hdr_txt)
                if not mt:
                    continue
                txt = t['text']
                for gi, gv in enumerate(mt.groups(), 1):
                    txt = txt.replace('$%d' % gi, gv or '')
                if t['kind'] == 'loop_each':
                    lp = dict(text=txt, line=t['line'], iter=None)
                elif t['kind'] == 'loop_each_proof_start':
                    tps = dict(text=txt)
                elif t['kind'] == 'loop_each_ghost_before':
                    tgb = dict(text=txt)
                else:
                    tpe = dict(text=txt)
            if not lp:
                # a loop none of the header templates knows: the proof script does not fit this text (never an alarm)
                raise ExtractError('anchor lost: %s: loop %d (`%s`) matches no loop_each header template' % (where, k, hdr_txt[:60]))
        if lp:
            used.add(('loop', qual, k))
            if kw == 'for' and re.search(r'^\s*ensures\b', lp['text'], re.M):
                # measured on verus 0.2026.09.13: `ensures` on a `for` loop inside a loop_isolation(false) function is neither
                # checked nor assumed -- a clause written there would be counted but never discharged
                raise ExtractError('%s: loop %d: `ensures` on a for loop is not checked by this Verus; assert after the loop instead' % (where, k))
            inserts.append((bo, splice('\n' + lp['text'] + '\n')))
            if lp.get('iter'):
                if kw != 'for':
                    raise ExtractError('%s: iter= on a non-for loop' % where)
                m = re.compile(r'\bin\b').search(bm, s, bo)
                if not m:
                    raise ExtractError('%s: loop %d has no `in`' % (where, k))
                inserts.append((m.end(), splice(' %s:' % lp['iter'])))
        ps = ov.proofs.get(('loop_proof_start', qual, k)) or tps
        if ps:
            used.add(('loop_proof_start', qual, k))
            at = bo + 1
            m4 = re.match(r'( let \w+ = &[\w.\[\]]+?\[\w+\];)?/\*@R4>\*/', body[at:])
            if m4:
                at += m4.end()
            inserts.append((at, splice(' proof {\n' + ps['text'] + '\n} ')))
        pe = ov.proofs.get(('loop_proof_end', qual, k)) or tpe
        if pe:
            used.add(('loop_proof_end', qual, k))
            inserts.append((rs.match_close(bm, bo), splice(' proof {\n' + pe['text'] + '\n} ')))
        gb = ov.proofs.get(('loop_ghost_before', qual, k)) or tgb
        if gb:
            # raw ghost statements (`let ghost x = ..;`) right before the loop: snapshots of the state at loop entry,
            # so that invariants need not depend on what the code did between function entry and the loop
            used.add(('loop_ghost_before', qual, k))
            at = s
            m4 = re.search(r'/\*@R4<\w+\*/$', body[:s])
            if m4:
                at = m4.start()
            if bm[:at].rstrip().endswith('=>'):
                # the loop is a match-arm expression: statements need a block around it (spliced braces, inverted by the self-check)
                inserts.append((at, splice('{\n' + gb['text'] + '\n')))
                inserts.append((rs.match_close(bm, bo) + 1, splice('}')))
            else:
                inserts.append((at, splice('\n' + gb['text'] + '\n')))
        pa = ov.proofs.get(('loop_proof_after', qual, k))
        if pa:
            # right after the loop's closing brace (anchored on the loop ordinal, not on code text)
            used.add(('loop_proof_after', qual, k))
            inserts.append((rs.match_close(bm, bo) + 1, splice(' proof {\n' + pa['text'] + '\n} ')))
    ps = ov.proofs.get(('proof_start', qual, None))
    if ps:
        used.add(('proof_start', qual, None))
        inserts.append((1, splice(' proof {\n' + ps['text'] + '\n} ')))
    if PROBE and con and qual not in ov.stubs and 'external_body' not in ov.attrs.get(qual, ''):
        inserts.append((1, splice(' proof { assert(false); } /*PROBE %s*/ ' % qual)))
    pe = ov.proofs.get(('proof_end', qual, None))
    if pe:
        used.add(('proof_end', qual, None))
        inserts.append((len(body) - 1, splice(' proof {\n' + pe['text'] + '\n} ')))
    pt = ov.proofs.get(('proof_before_tail', qual, None))
    if pt:
        # in front of the function's tail expression: after the last top-level `;` (or `}` of a block statement) of the body
        used.add(('proof_before_tail', qual, None))
        depth, last = 0, None
        for ci in range(1, len(bm) - 1):
            c = bm[ci]
            if c in '{([':
                depth += 1
            elif c in '})]':
                depth -= 1
                if c == '}' and depth == 0:
                    # a block statement (`for`/`while`/`if` without else/`match` used as a statement) also ends a statement
                    rest = bm[ci + 1:len(bm) - 1].lstrip()
                    if rest and not re.match(r'(else\b|[.?;,)\]=+\-*/&|<>]|as\b)', rest):
                        last = ci
            elif c == ';' and depth == 0:
                last = ci
        if last is None:
            raise ExtractError('anchor lost: %s: body has no statement before its tail expression' % where)
        if not bm[last + 1:len(bm) - 1].strip():
            raise ExtractError('anchor lost: %s: body has no tail expression' % where)
        inserts.append((last + 1, splice(' proof {\n' + pt['text'] + '\n} ')))
    for key in list(ov.proofs):
        if key[0] == 'proof_at' and key[1] == qual:
            anchor, nth = ov.proofs[key]['anchor'], key[2]
            idxs = [m.start() for m in re.finditer(re.escape(anchor), bm)]
            if nth >= len(idxs):
                raise ExtractError('anchor lost: %s: text %r occurrence %d not found' % (where, anchor, nth))
            used.add(key)
            inserts.append((idxs[nth], splice(' proof {\n' + ov.proofs[key]['text'] + '\n} ')))
    for key in list(ov.loops):
        if key[0] == qual and key[1] >= len(loops):
            raise ExtractError('anchor lost: %s: loop ordinal %d not found (fn has %d loops)' % (where, key[1], len(loops)))
    inserts.sort(key=lambda x: -x[0])
    for idx, t in inserts:
        body = body[:idx] + t + body[idx:]
    if inserts:
        log.append(dict(rule='R1', where=where, edit='%d loop/proof splices' % len(inserts)))
    # --- header
    if con:
        used.add(('contract', qual, None))
        hm = rs.mask(header)
        if con['ret']:
            # find `->` at depth 0 after the parameter list
            p = hm.find('(')
            pc = rs.match_close(hm, p)
            arrow = hm.find('->', pc)
            if arrow < 0:
                raise ExtractError('%s: ret= given but fn has no return type' % where)
            wh = re.search(r'\bwhere\b', hm[arrow:])
            tend = arrow + wh.start() if wh else len(header)
            rtype = header[arrow + 2:tend]
            header = header[:arrow + 2] + splice(' (%s:' % con['ret']) + rtype.rstrip() + splice(')') + rtype[len(rtype.rstrip()):] + header[tend:]
        header = header + splice('\n' + con['text'] + '\n')
        log.append(dict(rule='R1', where=where, edit='contract spliced'))
    text = header + body
    if qual in ov.attrs:
        used.add(('attr', qual, None))
        text = splice(ov.attrs[qual].strip() + '\n') + text
        log.append(dict(rule='R1/R6', where=where, edit='attribute spliced: ' + ' '.join(ov.attrs[qual].split())))
    return text


def invert(text: str) -> str:
    return r4_inverse(r3_inverse(r2_inverse(strip_splices(text)))).replace('/*@R7*/pub', 'pub(crate)')


def build(overlay_path: str, repo: str, out_path: str):
    """Emit the Verus file.  Returns dict(log=[..], functions=[..], linemap=[..], tags=[..])."""
    ov = Overlay(overlay_path)
    log, used, functions, checks = [], set(), [], []
    chunks = ['// GENERATED by /verif/engine/extract.py from %s and %s -- do not edit\n' % (repo, overlay_path),
              '#![feature(allocator_api)]\n',
              '#![allow(unused_imports, dead_code, unused_variables, unused_mut, unused_assignments, non_snake_case, unreachable_code, unreachable_patterns)]\n',
              'use vstd::prelude::*;\n', 'verus! {\n']
    for text, ln in ov.pre:
        chunks.append('// ---- overlay pre (%s:%d)\n' % (os.path.basename(overlay_path), ln) + text + '\n')
    srcs = {}

    def load(f):
        if f not in srcs:
            p = os.path.join(repo, f)
            if not os.path.exists(p):
                raise ExtractError('anchor lost: %s missing' % p)
            s = open(p, encoding='utf-8').read()
            srcs[f] = (s, rs.mask(s))
        return srcs[f]

    for spec in ov.items:
        src, msk = load(spec['file'])
        try:
            it = rs.find_item(src, msk, spec['kind'], spec['name'], spec['file'])
        except rs.SkimError as e:
            raise ExtractError('anchor lost: %s' % e)
        where = '%s:%d %s %s' % (spec['file'], it.lines[0], spec['kind'], spec['name'])
        chunks.append('// ---- %s\n' % where)
        if spec['kind'] in ('struct', 'enum', 'type', 'const'):
            attrs = r5_attrs(it.attrs, log, where, noderive=spec.get('noderive', False))
            body_txt = src[it.head_start:it.end]
            if spec['kind'] in ('struct', 'enum') and 'pub(crate)' in rs.mask(body_txt):
                # R7: Verus cannot give field accessors of a pub(crate) datatype a visibility; widen to pub
                mk = rs.mask(body_txt)
                n7 = mk.count('pub(crate)')
                out7, pos7 = [], 0
                for m7 in re.finditer(r'pub\(crate\)', mk):
                    out7.append(body_txt[pos7:m7.start()] + '/*@R7*/pub')
                    pos7 = m7.end()
                out7.append(body_txt[pos7:])
                body_txt = ''.join(out7)
                log.append(dict(rule='R7', where=where, edit='%d x pub(crate) -> pub on a type item (visibility only)' % n7))
            chunks.append(attrs + '/*@B %s %d %d*/' % (spec['file'], it.head_start, it.end) + body_txt + '/*@E*/\n')
            checks.append((spec['file'], it.head_start, it.end))
        elif spec['kind'] == 'fn':
            attrs = r5_attrs(it.attrs, log, where)
            t = transform_fn(it, spec['name'], ov, log, used)
            chunks.append(attrs + '/*@B %s %d %d*/' % (spec['file'], it.head_start, it.end) + t + '/*@E*/\n')
            functions.append(dict(name=spec['name'], file=spec['file'], lines=list(it.lines), contract=spec['name'] in ov.contracts, serves=spec.get('serves', []), stub=spec['name'] in ov.stubs))
        elif spec['kind'] == 'impl':
            tyname = spec.get('as') or spec['name'].split()[-1]
            members = rs.impl_members(it)
            want = spec.get('members', ['*'])
            excl = set(spec.get('exclude', []))
            names = [n for _, n, _ in members]
            for w in want:
                if w != '*' and w not in names:
                    raise ExtractError('anchor lost: %s has no member %s' % (where, w))
            chunks.append(src[it.head_start:it.body_open + 1] + '\n')
            for kind, name, mi in members:
                if name in excl or ('*' not in want and name not in want and kind == 'fn'):
                    continue
                if kind != 'fn' and '*' not in want and not spec.get('consts', True):
                    continue
                mwhere = '%s:%d %s::%s' % (spec['file'], mi.lines[0], tyname, name)
                attrs = r5_attrs(mi.attrs, log, mwhere)
                if kind == 'fn':
                    qual = '%s::%s' % (tyname, name)
                    t = transform_fn(mi, qual, ov, log, used)
                    functions.append(dict(name=qual, file=spec['file'], lines=list(mi.lines), contract=qual in ov.contracts, serves=spec.get('serves', []), stub=qual in ov.stubs))
                else:
                    t = src[mi.head_start:mi.end]
                chunks.append('    ' + attrs + '/*@B %s %d %d*/' % (spec['file'], mi.head_start, mi.end) + t + '/*@E*/\n')
            chunks.append('}\n')
        else:
            raise ExtractError('unknown item kind %s' % spec['kind'])
    for text, ln in ov.post:
        chunks.append('// ---- overlay post (%s:%d)\n' % (os.path.basename(overlay_path), ln) + text + '\n')
    chunks.append('} // verus!\nfn main() {}\n')
    # every overlay block must have found its anchor
    for qual in ov.contracts:
        if ('contract', qual, None) not in used:
            raise ExtractError('anchor lost: contract for %s matches no extracted fn' % qual)
    for (qual, k) in ov.loops:
        if ('loop', qual, k) not in used:
            raise ExtractError('anchor lost: loop %s#%d matches no extracted fn' % (qual, k))
    for qual in ov.stubs:
        if ('stub', qual, None) not in used:
            raise ExtractError('anchor lost: stub %s matches no extracted fn' % qual)
    for qual in ov.attrs:
        if ('attr', qual, None) not in used:
            raise ExtractError('anchor lost: attr for %s matches no extracted fn' % qual)
    for key in ov.proofs:
        if key not in used:
            raise ExtractError('anchor lost: %s for %s matches no extracted fn' % (key[0], key[1]))
    out = ''.join(chunks)
    with open(out_path, 'w', encoding='utf-8') as f:
        f.write(out)
    # ---- self-check: every /*@B..*/ .. /*@E*/ region, inverted, equals the repo span
    n_checked = 0
    for m in re.finditer(r'/\*@B (\S+) (\d+) (\d+)\*/', out):
        e = out.find('/*@E*/', m.end())
        region = out[m.end():e]
        src, _ = load(m.group(1))
        orig = src[int(m.group(2)):int(m.group(3))]
        if region.endswith('/*@STUB*/'):
            hdr = invert(region[:-len('/*@STUB*/')])
            if not orig.startswith(hdr) or not orig[len(hdr):].lstrip().startswith('{'):
                raise ExtractError('self-check failed for stub %s bytes %s-%s' % m.groups())
            n_checked += 1
            continue
        if invert(region) != orig:
            raise ExtractError('self-check failed for %s bytes %s-%s: emitted text is not the repository text modulo R1-R4' % m.groups())
        n_checked += 1
    # ---- line map for obligation naming
    tags = []
    out_lines = out.split('\n')
    cur_fn = None
    fn_at_line = {}
    # map emitted line -> function by scanning /*@B markers and function names
    for i, ln in enumerate(out_lines, 1):
        for m in TAG_RE.finditer(ln):
            tags.append(dict(line=i, id=m.group(1), props=[p for p in m.group(2).strip().split(',') if p]))
    return dict(log=log, functions=functions, tags=tags, regions_checked=n_checked, kernel=ov.name, serves=ov.serves,
                aux_fns=[dict(name=n, serves=sv) for n, sv in ov.aux_fns], n_lines=len(out_lines))


if __name__ == '__main__':
    import json
    r = build(sys.argv[1], sys.argv[2], sys.argv[3])
    print(json.dumps(r, indent=1))
