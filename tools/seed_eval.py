#!/usr/bin/env python3
"""tools/seed_eval.py <Cxx> <seeddir> <name> [--tier quick|thorough] [--props C04,C18]

1. confirm the seeded change myself in a scratch worktree of /repo (outside /repo and /verif):
   patch applies; `cargo test --offline` passes; the demonstration fails with the change and passes without
2. keep it as /verif/seeded/<name>/ {patch.diff, demo.rs, meta.json}
3. run the registered check(s) against it: git -C /repo apply; ./check; git -C /repo checkout -- .
"""
import json
import os
import re
import shutil
import subprocess
import sys
import time

WT = os.environ.get('SEED_WT', '/tmp/seedcheck-wt')


def sh(cmd, cwd=None, timeout=1800):
    p = subprocess.run(cmd, cwd=cwd, shell=True, stdout=subprocess.PIPE, stderr=subprocess.STDOUT, text=True, timeout=timeout)
    return p.returncode, p.stdout


def confirm(seed):
    if not os.path.exists(WT):
        rc, out = sh('git -C /repo worktree add -q --detach %s HEAD' % WT)
        if rc:
            raise SystemExit('cannot create worktree: ' + out)
    sh('git checkout -q --detach $(git -C /repo rev-parse HEAD) && git checkout -- . && git clean -fdq -e target', cwd=WT)
    res = {}
    demo = open(os.path.join(seed, 'demo.rs')).read()
    is_integration = 'mod ' not in demo.split('\n', 5)[0] and ('use asca' in demo or 'asca::' in demo) and '#[cfg(test)]' not in demo
    os.makedirs(os.path.join(WT, 'tests'), exist_ok=True)

    def place_demo():
        if is_integration:
            os.makedirs(os.path.join(WT, 'tests'), exist_ok=True)
            shutil.copy(os.path.join(seed, 'demo.rs'), os.path.join(WT, 'tests', 'demo.rs'))
            return 'cargo test --offline --test demo'
        # snippet for a src file: find "append to src/xxx.rs"
        m = re.search(r'(src/[\w/]+\.rs)', demo)
        target = m.group(1) if m else 'src/lib.rs'
        with open(os.path.join(WT, target), 'a') as f:
            f.write('\n' + demo + '\n')
        mm = re.search(r'mod (\w+)', demo)
        return 'cargo test --offline --lib %s' % (mm.group(1) if mm else '')

    # without the change: demo passes
    cmd = place_demo()
    rc, out = sh('timeout 900 ' + cmd, cwd=WT)
    res['demo_passes_without'] = rc == 0
    res['demo_without_tail'] = out[-600:]
    sh('git checkout -- . && git clean -fdq -e target', cwd=WT)
    # with the change: suite passes, demo fails
    rc, out = sh('git apply %s' % os.path.join(seed, 'patch.diff'), cwd=WT)
    res['patch_applies'] = rc == 0
    if rc:
        res['apply_error'] = out[-400:]
        return res
    rc, out = sh('timeout 1200 cargo test --offline --workspace --no-fail-fast', cwd=WT)
    m = re.search(r'test result: (\w+)\. (\d+) passed; (\d+) failed', out)
    res['tests_pass_with_change'] = bool(m and m.group(1) == 'ok' and int(m.group(2)) == 144 and int(m.group(3)) == 0)
    res['tests_line'] = m.group(0) if m else out[-300:]
    cmd = place_demo()
    rc, out = sh('timeout 600 ' + cmd, cwd=WT)
    res['demo_fails_with_change'] = rc != 0
    res['demo_with_tail'] = out[-600:]
    res['demo_cmd'] = cmd
    sh('git checkout -- . && git clean -fdq -e target', cwd=WT)
    return res


def main():
    prop, seed, name = sys.argv[1], sys.argv[2], sys.argv[3]
    tier = sys.argv[sys.argv.index('--tier') + 1] if '--tier' in sys.argv else 'quick'
    props = sys.argv[sys.argv.index('--props') + 1].split(',') if '--props' in sys.argv else [prop]
    dst = os.path.join('/verif/seeded', name)
    meta = json.load(open(os.path.join(dst, 'meta.json'))) if os.path.exists(os.path.join(dst, 'meta.json')) else json.load(open(os.path.join(seed, 'meta.json')))
    if '--skip-confirm' not in sys.argv:
        c = confirm(seed)
        meta['confirmed_by_verif'] = c
        ok = c.get('patch_applies') and c.get('tests_pass_with_change') and c.get('demo_fails_with_change') and c.get('demo_passes_without')
        print('confirm:', json.dumps({k: v for k, v in c.items() if not k.endswith('_tail')}))
        if not ok:
            print('NOT CONFIRMED - not kept')
            return 3
    os.makedirs(dst, exist_ok=True)
    for f in ('patch.diff', 'demo.rs'):
        if os.path.abspath(os.path.join(seed, f)) != os.path.abspath(os.path.join(dst, f)):
            shutil.copy(os.path.join(seed, f), os.path.join(dst, f))
    runs = meta.get('check_runs', [])
    if '--confirm-only' in sys.argv:
        json.dump(meta, open(os.path.join(dst, 'meta.json'), 'w'), indent=1, ensure_ascii=False)
        return 0
    use_copy = '--copy' in sys.argv
    for p in props:
        env_prefix = ''
        if use_copy:
            # evaluate on a private copy of /repo's HEAD (same code path: the driver honours VERIF_REPO), so /repo stays untouched
            rcopy = '/tmp/seedrepo-%s' % name
            sh('rm -rf %s && mkdir -p %s && git -C /repo archive HEAD | tar -x -C %s' % (rcopy, rcopy, rcopy))
            rc, out = sh('patch -p1 -s < %s' % os.path.join(dst, 'patch.diff'), cwd=rcopy)
            if rc:
                print('apply to copy failed', out)
                return 3
            env_prefix = 'VERIF_OUT=/tmp/verif-eval-out VERIF_REPO=%s VERIF_JOBS=%s ' % (rcopy, os.environ.get('VERIF_JOBS', '6'))
        else:
            rc, out = sh('git -C /repo apply %s' % os.path.join(dst, 'patch.diff'))
            if rc:
                print('apply to /repo failed', out)
                return 3
        t0 = time.time()
        try:
            rc, out = sh(env_prefix + './check %s --tier %s' % (p, tier), cwd='/verif', timeout=7200)
        finally:
            if use_copy:
                sh('rm -rf /tmp/seedrepo-%s' % name)
            else:
                sh('git -C /repo checkout -- .')
        lines = [l for l in out.split('\n') if l.startswith(('VIOLATION', 'KNOWN-FINDING', 'UNDECIDED', 'OK ', '  obligation=', '  also failing'))]
        runs.append(dict(check=p, tier=tier, exit=rc, seconds=round(time.time() - t0), lines=lines[:12], on='copy of /repo HEAD' if use_copy else '/repo'))
        print('check %s --tier %s -> exit %d (%ds)' % (p, tier, rc, time.time() - t0))
        for l in lines[:8]:
            print('   ', l[:260])
    meta['check_runs'] = runs
    meta['detected'] = any(r['exit'] == 1 for r in runs)
    json.dump(meta, open(os.path.join(dst, 'meta.json'), 'w'), indent=1, ensure_ascii=False)
    return 0


if __name__ == '__main__':
    sys.exit(main())
