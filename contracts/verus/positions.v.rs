//@ kernel positions serves=C03,C02
//@ include supras.v.rs
//@ item src/word.rs struct SegPos
//@ item src/word.rs impl SegPos members=new,reversed,increment,decrement,at_word_start,at_word_end,at_syll_start,at_syll_end
//@ item src/word.rs struct Word
//@ item src/word.rs impl Word members=in_bounds,out_of_bounds,get_seg_at,seg_length_at,apply_seg_mods,remove_syll,get_syll_segments

//@ post
// ------------------------------------------------------------------ positions in a word
/// type invariant of Word assumed by the position arithmetic: at least one syllable, none empty
pub closed spec fn wf_word(w: Word) -> bool {
    w.syllables@.len() >= 1 && forall|i: int| 0 <= i < w.syllables@.len() ==> (#[trigger] w.syllables@[i]).segments@.len() >= 1
}
pub closed spec fn nsyll(w: Word) -> int { w.syllables@.len() as int }
pub closed spec fn nseg(w: Word, s: int) -> int { w.syllables@[s].segments@.len() as int }
pub closed spec fn syll_at(w: Word, s: int) -> Syllable { w.syllables@[s] }
pub closed spec fn segs(w: Word, s: int) -> Seq<Segment> { w.syllables@[s].segments@ }
pub closed spec fn inb(w: Word, p: SegPos) -> bool {
    p.syll_index < nsyll(w) && p.seg_index < nseg(w, p.syll_index as int)
}
/// number of segments before syllable s
pub closed spec fn before(w: Word, s: int) -> int
    decreases s
{
    if s <= 0 { 0 } else { before(w, s - 1) + nseg(w, s - 1) }
}
/// reading-order index of an in-bounds position
pub closed spec fn lin(w: Word, p: SegPos) -> int { before(w, p.syll_index as int) + p.seg_index }
pub closed spec fn total(w: Word) -> int { before(w, nsyll(w)) }

proof fn lemma_before_mono(w: Word, a: int, b: int)
    requires wf_word(w), 0 <= a <= b <= nsyll(w)
    ensures before(w, a) <= before(w, b), a < b ==> before(w, a) + nseg(w, a) <= before(w, b)
    decreases b - a
{
    if a < b {
        lemma_before_mono(w, a, b - 1);
        if a < b - 1 { } else { }
    }
}

// ---- laws (C03 mechanisms), verified modularly against the contracts
/// increment is the successor in reading order; decrement undoes it
fn law_increment_is_successor(w: &Word, p: SegPos)
    requires wf_word(*w), inb(*w, p), p.seg_index < usize::MAX, p.syll_index < usize::MAX
{
    let mut q = p;
    q.increment(w);
    proof { lemma_before_mono(*w, p.syll_index as int, nsyll(*w)); }
    assert(/*#law.increment_is_successor C03*/ inb(*w, q) ==> lin(*w, q) == lin(*w, p) + 1);
    assert(/*#law.increment_past_end_is_out_of_bounds C03*/ !inb(*w, q) ==> (lin(*w, p) + 1 == total(*w) && q.syll_index == nsyll(*w) && q.seg_index == 0)) by {
        if !inb(*w, q) {
            assert(p.syll_index + 1 == nsyll(*w));
            assert(before(*w, nsyll(*w)) == before(*w, nsyll(*w) - 1) + nseg(*w, nsyll(*w) - 1));
        }
    }
    let mut r = q;
    r.decrement(w);
    assert(/*#law.decrement_undoes_increment C03*/ r == p);
}
fn law_word_edges(w: &Word, p: SegPos)
    requires wf_word(*w), inb(*w, p)
{
    let s = p.at_word_start();
    let e = p.at_word_end(w);
    proof { lemma_before_mono(*w, p.syll_index as int, nsyll(*w)); }
    assert(/*#law.at_word_start_is_first C03*/ s == (lin(*w, p) == 0)) by {
        if p.syll_index > 0 { lemma_before_mono(*w, 0, p.syll_index as int); assert(before(*w, 0) + nseg(*w, 0) <= before(*w, p.syll_index as int)); }
    }
    assert(/*#law.at_word_end_is_last C03*/ e == (lin(*w, p) + 1 == total(*w))) by {
        if p.syll_index + 1 < nsyll(*w) { lemma_before_mono(*w, p.syll_index + 1, nsyll(*w)); assert(before(*w, p.syll_index + 1) == before(*w, p.syll_index as int) + nseg(*w, p.syll_index as int)); }
        else { assert(before(*w, nsyll(*w)) == before(*w, nsyll(*w) - 1) + nseg(*w, nsyll(*w) - 1)); }
    }
    let b = w.in_bounds(p);
    let o = w.out_of_bounds(p);
    assert(/*#law.bounds_are_complements C03*/ b && !o);
}
/// `reversed` maps an in-bounds position of w to the mirrored coordinates, and is an involution on them
fn law_reversed(w: &Word, p: SegPos)
    requires wf_word(*w), inb(*w, p)
{
    let r = p.reversed(w);
    assert(/*#law.reversed_mirrors C03*/ r.syll_index == nsyll(*w) - 1 - p.syll_index && r.seg_index == nseg(*w, p.syll_index as int) - 1 - p.seg_index);
    assert(r.syll_index < nsyll(*w));
}
//@ end

//@ contract SegPos::new ret=r
    ensures r.syll_index == syll_index && r.seg_index == seg_index,
//@ end
//@ contract SegPos::reversed ret=r
    requires /*#reversed.in_bounds C02,C03*/ inb(*word, *self),
    ensures /*#reversed.mirror C03*/ r.syll_index == nsyll(*word) - 1 - self.syll_index && r.seg_index == nseg(*word, self.syll_index as int) - 1 - self.seg_index,
//@ end
//@ contract SegPos::increment
    requires /*#increment.no_overflow C02*/ old(self).seg_index < usize::MAX && old(self).syll_index < usize::MAX,
    ensures
        /*#increment.step C03*/ (if old(self).syll_index >= nsyll(*word) { *final(self) == *old(self) }
            else if old(self).seg_index + 1 < nseg(*word, old(self).syll_index as int) { final(self).syll_index == old(self).syll_index && final(self).seg_index == old(self).seg_index + 1 }
            else { final(self).syll_index == old(self).syll_index + 1 && final(self).seg_index == 0 }),
//@ end
//@ contract SegPos::decrement
    requires /*#decrement.wf_word C02*/ wf_word(*word),
    ensures
        /*#decrement.step C03*/ (if old(self).syll_index > nsyll(*word) { final(self).syll_index == nsyll(*word) - 1 && final(self).seg_index == nseg(*word, nsyll(*word) - 1) - 1 }
            else if old(self).seg_index > 0 { final(self).syll_index == old(self).syll_index && final(self).seg_index == old(self).seg_index - 1 }
            else if old(self).syll_index > 0 { final(self).syll_index == old(self).syll_index - 1 && final(self).seg_index == nseg(*word, old(self).syll_index - 1) - 1 }
            else { *final(self) == *old(self) }),
//@ end
//@ contract SegPos::at_word_start ret=r
    ensures /*#at_word_start C03*/ r == (self.syll_index == 0 && self.seg_index == 0),
//@ end
//@ contract SegPos::at_word_end ret=r
    requires /*#at_word_end.wf_word C02*/ wf_word(*word),
    ensures /*#at_word_end C03*/ r == (self.syll_index == nsyll(*word) - 1 && self.seg_index >= nseg(*word, nsyll(*word) - 1) - 1),
//@ end
//@ contract SegPos::at_syll_start ret=r
    ensures /*#at_syll_start C03*/ r == (self.seg_index == 0),
//@ end
//@ contract SegPos::at_syll_end ret=r
    requires /*#at_syll_end.wf_word C02*/ wf_word(*word),
    ensures /*#at_syll_end C03*/ r == (self.syll_index < nsyll(*word) && self.seg_index >= nseg(*word, self.syll_index as int) - 1),
//@ end
//@ contract Word::in_bounds ret=r
    ensures /*#in_bounds C03*/ r == inb(*self, seg_pos),
//@ end
//@ contract Word::out_of_bounds ret=r
    ensures /*#out_of_bounds.is_word_boundary_test C03*/ r == !inb(*self, seg_pos),
//@ end
//@ contract Word::get_seg_at ret=r
    ensures /*#get_seg_at C03*/ r == (if inb(*self, seg_pos) { Some(segs(*self, seg_pos.syll_index as int)[seg_pos.seg_index as int]) } else { None }),
//@ end
//@ contract Word::seg_length_at ret=r
    requires /*#seg_length_at.in_bounds C02*/ inb(*self, seg_index),
    ensures /*#seg_length_at C03,C05*/ r as int == run_len(segs(*self, seg_index.syll_index as int), seg_index.seg_index as int),
//@ end

//@ contract Word::apply_seg_mods ret=r
    requires
        /*#word_apply_seg_mods.in_bounds C02*/ inb(*old(self), start_pos),
        nseg(*old(self), start_pos.syll_index as int) + 3 <= isize::MAX,
    ensures
        /*#word_apply_seg_mods.other_syllables_untouched C14*/ nsyll(*final(self)) == nsyll(*old(self))
            && forall|s: int| 0 <= s < nsyll(*old(self)) && s != start_pos.syll_index ==> syll_at(*final(self), s) == syll_at(*old(self), s),
        /*#word_apply_seg_mods.segmental_only_keeps_boundaries_stress_tone C14*/ (r is Ok && mods.suprs.length[0].is_none() && mods.suprs.length[1].is_none()
            && mods.suprs.stress[0].is_none() && mods.suprs.stress[1].is_none() && mods.suprs.tone.is_none()) ==> (
            nseg(*final(self), start_pos.syll_index as int) == nseg(*old(self), start_pos.syll_index as int)
            && syll_at(*final(self), start_pos.syll_index as int).stress == syll_at(*old(self), start_pos.syll_index as int).stress
            && syll_at(*final(self), start_pos.syll_index as int).tone == syll_at(*old(self), start_pos.syll_index as int).tone),
//@ end

//@ contract Word::remove_syll
    requires /*#remove_syll.keeps_one_syllable C02,C08*/ nsyll(*old(self)) > 1, syll_index < nsyll(*old(self)),
    ensures /*#remove_syll.removes_exactly_that_syllable C14,C08*/ nsyll(*final(self)) == nsyll(*old(self)) - 1
        && (forall|s: int| 0 <= s < syll_index ==> syll_at(*final(self), s) == syll_at(*old(self), s))
        && (forall|s: int| syll_index <= s < nsyll(*final(self)) ==> syll_at(*final(self), s) == syll_at(*old(self), s + 1)),
//@ end
//@ contract Word::get_syll_segments ret=r
    ensures (syll_index < nsyll(*self)) == r.is_some(), r matches Some(v) ==> v@ == segs(*self, syll_index as int),
//@ end
