//@ kernel blankline serves=C10
//@ include specenv.v.rs
//@ item src/parser.rs impl Parser members=new,rule,parse
//@ stub Parser::rule

// =================================================================== Parser::new / Parser::parse: a blank or comment line is no rule
//@ post
pub uninterp spec fn rule_spec(p: Parser) -> (Result<Rule, RuleSyntaxError>, Parser);
//@ end
//@ contract Parser::rule ret=r
    ensures (r, *final(self)) == rule_spec(*old(self)),
//@ end
//@ contract Parser::new ret=r
    requires token_list@.len() > 0,      // the lexer always ends a line with an Eol token
    ensures r.token_list == token_list && r.group == group && r.line == line && r.pos == 0 && r.curr_tkn == token_list@[0],
//@ end
//@ proof_start Parser::new
    axiom_token_clone();
//@ end
//@ contract Parser::parse ret=r
    ensures
        /*#parse.blank_or_comment_line_is_no_rule C10*/ (old(self).curr_tkn.kind == TokenKind::Eol || old(self).curr_tkn.kind == TokenKind::Comment)
            ==> (r == Ok::<Option<Rule>, RuleSyntaxError>(None) && *final(self) == *old(self)),
        /*#parse.any_other_line_is_parsed_as_a_rule C10*/ !(old(self).curr_tkn.kind == TokenKind::Eol || old(self).curr_tkn.kind == TokenKind::Comment)
            ==> (match rule_spec(*old(self)).0 { Ok(ru) => r == Ok::<Option<Rule>, RuleSyntaxError>(Some(ru)), Err(e) => r == Err::<Option<Rule>, RuleSyntaxError>(e) }),
//@ end
