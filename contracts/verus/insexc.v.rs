//@ kernel insexc serves=C02
//@ include specenv.v.rs
//@ item src/subrule.rs impl SubRule members=get_exceptions,match_before_env,match_after_env,insertion_match_exceptions
//@ stub SubRule::get_exceptions
//@ stub SubRule::match_before_env
//@ stub SubRule::match_after_env

//@ pre
// ---- the exception test of INSERTION rules (`* > x / .. | y_z`).  Positions are opaque here; `SegPos::reversed`
// carries the precondition under which it is proved in the `positions` kernel (its own debug_assert).
#[derive(Clone, Copy)]
#[verifier::external_body]
pub struct SegPos { _o: u8 }
pub uninterp spec fn pos_in_bounds(w: Word, p: SegPos) -> bool;
pub uninterp spec fn prev(p: SegPos, w: Word) -> SegPos;
pub uninterp spec fn wrev(w: Word) -> Word;
pub uninterp spec fn at_end(p: SegPos, w: Word) -> bool;
pub uninterp spec fn bef_spec(sr: SubRule, states: Seq<Item>, w: Word, p: SegPos, ins: bool, is_context: bool) -> Result<bool, RuleRuntimeError>;
pub uninterp spec fn aft_spec(sr: SubRule, states: Seq<Item>, w: Word, p: SegPos, ins: bool, inc: bool, is_context: bool) -> Result<bool, RuleRuntimeError>;
impl SegPos {
    #[verifier::external_body]
    pub(crate) fn reversed(&self, word: &Word) -> (r: Self)
        requires /*#reversed.needs_an_in_bounds_position C02*/ pos_in_bounds(*word, *self),
        ensures r == prev(*self, *word)
    { unimplemented!() }
    #[verifier::external_body]
    pub(crate) fn at_word_end(&self, word: &Word) -> (r: bool) ensures r == at_end(*self, *word) { unimplemented!() }
}
impl Word {
    #[verifier::external_body]
    pub(crate) fn reverse(&self) -> (r: Self) ensures r == wrev(*self) { unimplemented!() }
}
// trusted std contract: slice::reverse
pub assume_specification<T>[ <[T]>::reverse ](s: &mut [T])
    ensures final(s)@ == old(s)@.reverse();
//@ end
//@ post
// `==` on ParseElement (its derive list is dropped in the condensed kernel): structural -- ASSUMED
impl PartialEq for ParseElement {
    #[verifier::external_body]
    fn eq(&self, other: &Self) -> (r: bool) ensures r == (*self == *other) { unimplemented!() }
}
//@ end
//@ contract SubRule::get_exceptions ret=r
    ensures self.except is None ==> r@.len() == 0,
//@ end
//@ contract SubRule::match_before_env ret=r
    ensures r == bef_spec(*self, states@, *word_rev, *pos, ins_match_before, is_context),
//@ end
//@ contract SubRule::match_after_env ret=r
    ensures r == aft_spec(*self, states@, *word, *pos, ins_match_before, inc, is_context),
//@ end
//@ contract SubRule::insertion_match_exceptions ret=r
    // NO precondition on ins_pos: an insertion point may lie one past the end of a syllable (the function itself
    // has an "edge case for when insertion position is out of bounds")
    ensures /*#insexc.no_exception_means_not_excepted C02*/ self.except is None ==> r == Ok::<bool, RuleRuntimeError>(false),
//@ end
