"""Check driver: ./check <Cxx> [--tier quick|thorough] [--replay <file>]

Verdict logic: DESIGN.md section 5.
exit 0  every obligation discharged (or only known findings)
exit 1  VIOLATION property=<id> replay=<path> [no-failing-input-found]
exit 2  undecided (lost anchor, unsupported construct, timeout, OOM, tool crash) -- never an alarm
"""
import concurrent.futures as cf
import fnmatch
import json
import os
import re
import shutil
import subprocess
import sys
import tempfile
import time

sys.path.insert(0, os.path.dirname(__file__))
import kani_run  # noqa: E402
import verus_run  # noqa: E402
import mutants  # noqa: E402
import props as P  # noqa: E402

VERIF = os.path.dirname(os.path.dirname(os.path.abspath(__file__)))
REPO = os.environ.get('VERIF_REPO', '/repo')
# evaluation runs against seeded copies write their evidence / replay files elsewhere so that the committed
# evidence always comes from /repo itself
OUT = os.environ.get('VERIF_OUT', VERIF)
META_RE = re.compile(r'//%\s*(.*)')


def harness_catalog():
    """All Kani harnesses with their `//% key=value ...` metadata."""
    out = []
    for h in kani_run.list_harnesses():
        meta = {}
        for m in META_RE.finditer(h['attrs']):
            for kv in re.findall(r'([\w.]+)=("[^"]*"|\S+)', m.group(1)):
                meta[kv[0]] = kv[1].strip('"')
        h['props'] = meta.get('props', '').split(',') if meta.get('props') else []
        h['tier'] = meta.get('tier', 'quick')
        h['tier_by_prop'] = {k[5:]: v for k, v in meta.items() if k.startswith('tier.')}   # e.g. tier.C07=thorough
        h['kind'] = meta.get('kind', 'P')
        h['bound'] = meta.get('bound')
        h['form'] = meta.get('form', 'plain')
        h['twin'] = meta.get('twin')
        h['confirm_with'] = meta.get('confirm_with')
        h['covers'] = meta.get('covers', '').split(',') if meta.get('covers') else []
        h['pair'] = meta.get('pair', '').split(',') if meta.get('pair') else []
        h['timeout'] = int(meta.get('timeout', '600'))
        h['mem'] = int(meta.get('mem', '16'))
        h['expect'] = meta.get('expect')  # 'fail' for canaries
        h['clause'] = meta.get('clause')
        um = re.search(r'kani::unwind\((\d+)\)', h['attrs'])
        h['unwind'] = int(um.group(1)) if um else None
        out.append(h)
    return out


def kani_scan(modules):
    """kani::assume / kani::stub / stub_verified occurrences in the harness modules used by this run"""
    out = []
    for mod in sorted(set(modules)):
        p = os.path.join(kani_run.KDIR, mod.replace('::', '__') + '.rs')
        if not os.path.exists(p):
            continue
        for i, ln in enumerate(open(p, encoding='utf-8').read().split('\n'), 1):
            st = ln.strip()
            if st.startswith('//'):
                continue
            for kw in ('kani::assume', 'kani::stub', 'stub_verified', 'unsafe'):
                if kw in ln:
                    out.append(dict(file='contracts/kani/%s.rs' % mod.replace('::', '__'), line=i, keyword=kw, text=st[:140]))
                    break
    return out


def overlay_tags(kernel, _seen=None):
    """obligation tags of an overlay (and the overlays it includes), read from the overlay text itself so that
    they are known even when extraction fails"""
    import extract
    _seen = _seen or set()
    p = os.path.join(verus_run.VDIR, kernel + '.v.rs')
    if p in _seen or not os.path.exists(p):
        return []
    _seen.add(p)
    text = open(p, encoding='utf-8').read()
    out = [dict(id=m.group(1), props=[x for x in m.group(2).strip().split(',') if x]) for m in extract.TAG_RE.finditer(text)]
    for m in re.finditer(r'(?m)^//@ include (\S+)', text):
        out += overlay_tags(m.group(1)[:-len('.v.rs')], _seen)
    return out


def load_known():
    p = os.path.join(VERIF, 'known_findings.json')
    if not os.path.exists(p):
        return dict(findings=[], fixed=[])
    return json.load(open(p))


def write_json(path, obj):
    os.makedirs(os.path.dirname(path), exist_ok=True)
    tmp = path + '.tmp'
    with open(tmp, 'w') as f:
        json.dump(obj, f, indent=1)
    os.replace(tmp, path)


def native_replay(scratch, harness, playback_test, log):
    """Compile the harness as an ordinary test against the natively compiled crate and run it on the
    recorded values.  True = the assertion fails natively too (counterexample confirmed)."""
    modfile = os.path.join(scratch, 'src', harness['module'].replace('::', '/') + '.rs')
    text = open(modfile, encoding='utf-8').read()
    m = re.search(r'fn (kani_concrete_playback_\w+)', playback_test)
    if not m:
        return None, 'no playback test name'
    tname = m.group(1)
    if tname not in text:
        i = text.rindex('}\n//@K-END')
        text = text[:i] + '\n' + playback_test + '\n' + text[i:]
        with open(modfile, 'w', encoding='utf-8') as f:
            f.write(text)
    env = kani_run.kani_env()
    env['CARGO_TARGET_DIR'] = os.path.join(scratch, 'target-playback')
    cmd = ['cargo', 'kani', 'playback', '-Z', 'concrete-playback', '--', tname, '--exact', '--nocapture']
    cmd = ['cargo', 'kani', 'playback', '-Z', 'concrete-playback', '--', tname]
    try:
        p = subprocess.run(cmd, cwd=scratch, env=env, stdout=subprocess.PIPE, stderr=subprocess.STDOUT, text=True, timeout=900)
    except subprocess.TimeoutExpired:
        return None, 'native replay timed out'
    out = p.stdout
    log.append(dict(cmd=' '.join(cmd), tail=out[-2500:]))
    mm = re.search(r'test \S*' + re.escape(tname) + r' \.\.\. (ok|FAILED)', out)
    if not mm:
        return None, 'native replay did not run: ' + out[-800:]
    panic = re.search(r"panicked at [^\n]*\n([^\n]*)", out)
    return (mm.group(1) == 'FAILED'), (panic.group(0)[:400] if panic else '')


def run(prop, tier, seed):
    t0 = time.time()
    cfg = P.PROPS[prop]
    known = load_known()
    cat = [h for h in harness_catalog() if prop in h['props']]
    sel = [h for h in cat if tier == 'thorough' or h['tier_by_prop'].get(prop, h['tier']) == 'quick']
    scratch = tempfile.mkdtemp(prefix='asca-verif-%s-' % prop)
    ev = dict(property_id=prop, tier=tier, seed=seed, level=cfg['level'], coverage={}, assumptions=[], wall_s=0.0, violations=0)
    undecided, violations, known_hits, stale, also_failed = [], [], [], [], []
    verus_results, kani_results, mutant_results, stability, reach = [], [], [], [], []
    try:
        # ---------------- Verus kernels
        vdir = os.path.join(scratch, 'verus')
        os.makedirs(vdir)
        kernels = cfg.get('kernels', []) + (cfg.get('kernels_thorough', []) if tier == 'thorough' else [])
        with cf.ThreadPoolExecutor(max_workers=6) as ex:
            futs = {ex.submit(verus_run.run_kernel, k, REPO, vdir): k for k in kernels}
            for f in cf.as_completed(futs):
                verus_results.append(f.result())
        verus_results.sort(key=lambda r: kernels.index(r['kernel']))
        # ---------------- Kani harnesses
        if sel:
            kdir = os.path.join(scratch, 'crate')
            target = os.path.join(scratch, 'target')
            try:
                keep = set(h['name'] for h in sel) | set(h['twin'] for h in sel if h['twin'])
                kani_run.prepare(REPO, kdir, keep=keep)
                b = kani_run.build(kdir, target)
            except kani_run.PrepError as e:
                b = dict(ok=False, output=str(e), seconds=0)
            if not b['ok']:
                undecided.append('kani build/prepare failed: ' + b['output'][-1500:])
            else:
                workers = int(os.environ.get('VERIF_JOBS', '12'))
                bt = max(h['timeout'] for h in sel)
                bm = max(h['mem'] for h in sel)
                batch = kani_run.run_batch(kdir, target, [h['full'] for h in sel], jobs=workers, harness_timeout=bt, mem_gb=bm)
                for h in sel:
                    r = batch[h['full']]
                    if r['status'] in ('error', 'timeout', 'oom') and len(sel) > 1:
                        # re-run alone to get a clean classification
                        r = kani_run.run_harness(kdir, target, h['full'], h['timeout'], h['mem'])
                    r['meta'] = {k: h[k] for k in ('props', 'tier', 'kind', 'bound', 'form', 'twin', 'confirm_with', 'covers', 'pair', 'name', 'module', 'expect', 'clause', 'unwind')}
                    kani_results.append(r)
                kani_results.sort(key=lambda r: r['harness'])
                # failures: get a counterexample, replay natively.  Cheapest failing harness first; once one
                # counterexample is confirmed the remaining failing harnesses are listed, not replayed
                confirmed_one = False
                for r in sorted(kani_results, key=lambda x: x['seconds']):
                    h = r['meta']
                    if h['expect'] == 'fail':
                        if r['status'] != 'failed':
                            undecided.append('vacuity canary %s did not fail (%s)' % (r['harness'], r['status']))
                        continue
                    if r['status'] in ('timeout', 'oom', 'error', 'undecided'):
                        undecided.append('%s: %s %s' % (r['harness'], r['status'], r.get('reason', '') or r['tail'][-300:]))
                        continue
                    unsat_cov = [c for c in r.get('covers', []) if c['status'] != 'SATISFIED']
                    if r['status'] == 'proved' and unsat_cov:
                        undecided.append('%s: vacuity: cover not satisfied: %s' % (r['harness'], unsat_cov[0]['description']))
                        continue
                    if r['status'] != 'failed':
                        continue
                    if h['confirm_with']:
                        # a modular harness replaces a callee by its contract; if the code stops calling that callee
                        # (a harmless refactor) the stub no longer applies.  Alarm only if the harness that executes
                        # the real callee fails as well.
                        real = [x for x in kani_results if x['meta']['name'] == h['confirm_with']]
                        if real and real[0]['status'] == 'proved':
                            undecided.append('%s fails but %s (same clause, real callee) proves: the stubbed callee is probably no longer called; not an alarm' % (h['name'], h['confirm_with']))
                            continue
                        if real and real[0]['status'] == 'failed':
                            # stubs are not applied in native playback: let the real-callee harness supply the counterexample
                            also_failed.append(dict(obligation=h['name'], checks=[c['description'] for c in r['failed_checks'][:3]]))
                            continue
                    if confirmed_one and not [k for k in known['findings'] if k['property'] == prop and k['obligation'] == h['name']]:
                        r['replay'] = dict(confirmed=None, detail='not replayed: another counterexample of this run was already confirmed')
                        also_failed.append(dict(obligation=h['name'], checks=[c['description'] for c in r['failed_checks'][:3]]))
                        continue
                    target_h = [x for x in cat if x['full'] == r['harness']][0]
                    if h['twin']:   # replay through a cheaper twin (contract-form harnesses; wide harnesses whose traces are huge)
                        tw = [x for x in cat if x['name'] == h['twin']]
                        target_h = tw[0] if tw else target_h
                    r2 = kani_run.run_harness(kdir, target, target_h['full'], max(target_h['timeout'] * 3, 900), max(target_h['mem'] * 2, 48), playback=True)  # the trace of a failing run needs far more memory than the proof
                    r['playback_run'] = dict(status=r2['status'], seconds=r2['seconds'], failed_checks=r2['failed_checks'])
                    if r2['status'] != 'failed' or 'playback_test' not in r2:
                        if h['form'] == 'contract':
                            undecided.append('%s: contract-form harness fails but its plain twin does not (%s)' % (r['harness'], r2['status']))
                        else:
                            undecided.append('%s: failed but no counterexample could be produced (%s)' % (r['harness'], r2['status']))
                        continue
                    rlog = []
                    confirmed, detail = native_replay(kdir, target_h, r2['playback_test'], rlog)
                    what = '; '.join(sorted(set(c['description'] for c in r2['failed_checks'])))[:300]
                    entry = dict(property=prop, obligation=target_h['name'], harness=target_h['full'], backend='kani/cbmc',
                                 failed_checks=r2['failed_checks'], playback_test=r2['playback_test'], native_replay=dict(confirmed=confirmed, detail=detail, log=rlog),
                                 kind=h['kind'], bound=h['bound'])
                    r['replay'] = dict(confirmed=confirmed, detail=detail)
                    if confirmed is None:
                        undecided.append('%s: native replay could not run: %s' % (r['harness'], detail))
                    elif not confirmed:
                        undecided.append('%s: counterexample does not reproduce natively (verifier artefact)' % r['harness'])
                    else:
                        kf = [k for k in known['findings'] if k['property'] == prop and k['obligation'] == target_h['name']
                              and all(any(re.search(pat, c['description']) for c in r2['failed_checks']) for pat in k.get('check_patterns', []))
                              and all(any(re.search(pat, c.get('location', '')) for c in r2['failed_checks']) for pat in k.get('location_patterns', []))
                              and len(r2['failed_checks']) <= k.get('max_failed_checks', 10 ** 6)]
                        if kf:
                            known_hits.append((kf[0], entry))
                        else:
                            rp = os.path.join(OUT, 'replay', '%s-%s.json' % (prop, target_h['name']))
                            write_json(rp, entry)
                            violations.append(dict(obligation=target_h['name'], replay=rp, note=what, with_input=True))
                            confirmed_one = True
        # ---------------- Verus failures
        proved_cov = []
        for r in kani_results:
            if r['status'] == 'proved' and r['meta']['kind'] == 'P':
                proved_cov += r['meta']['covers']
        kani_violated = bool(violations) or bool(known_hits)
        for vr in verus_results:
            if vr['status'] == 'undecided':
                # the proof script could not be checked against the current text (lost anchor, renamed local,
                # construct outside the subset).  If every clause this kernel contributes to THIS property is
                # also covered by a complete Kani proof that succeeded, the property is still decided.
                tags = overlay_tags(vr['kernel'])
                rel = [t for t in tags if not t['props'] or prop in t['props']]
                uncovered = [t['id'] for t in rel if not any(fnmatch.fnmatch(t['id'], g) for g in proved_cov)]
                if rel and not uncovered and not vr.get('reason', '').startswith('vacuity'):
                    stale.append(dict(obligation='kernel:' + vr['kernel'], kernel=vr['kernel'], message=vr['reason'][:300],
                                      note='Verus kernel undecided on this text; all %d of its clauses for %s are covered by complete Kani proofs that succeeded' % (len(rel), prop)))
                    continue
                undecided.append('verus kernel %s: %s%s' % (vr['kernel'], vr['reason'], (' [clauses without a complete Kani proof: %s]' % ', '.join(uncovered[:6])) if uncovered else ''))
                continue
            if vr['status'] != 'failed':
                continue
            for fo in vr['failed']:
                if fo['props'] and prop not in fo['props']:
                    continue  # serves another property only
                ob = fo['obligation']
                if any(fnmatch.fnmatch(ob, g) for g in proved_cov):
                    stale.append(dict(obligation=ob, kernel=vr['kernel'], message=fo['message'], note='complete Kani proof of the same clause succeeded: proof script stale, property holds'))
                    continue
                kf = [k for k in known['findings'] if k['property'] == prop and k['obligation'] == ob]
                if kf:
                    known_hits.append((kf[0], dict(obligation=ob, verus=fo)))
                    continue
                # a replayed Kani counterexample was already reported for this run: list, do not multiply alarms
                if any(v['with_input'] for v in violations):
                    also_failed.append(dict(obligation=ob, checks=[fo['message']], backend='verus/z3'))
                    continue
                if any(v['obligation'] == ob for v in violations):
                    continue   # same named obligation failing at several sites: one alarm
                rp = os.path.join(OUT, 'replay', '%s-%s.json' % (prop, ob.replace('/', '_')))
                write_json(rp, dict(property=prop, obligation=ob, backend='verus/z3', kernel=vr['kernel'], function=fo['function'],
                                    message=fo['message'], verifier_output=fo['rendered'], emitted_line=fo['line'], text=fo['text'],
                                    note='Verus gives no model; no Kani harness covering this clause produced a failing input',
                                    rerun='cd /verif && python3 engine/verus_run.py %s' % vr['kernel']))
                violations.append(dict(obligation=ob, replay=rp, note=fo['message'], with_input=False))
        # ---------------- proof stability (thorough tier, informational): same kernels under another Z3 seed
        if tier == 'thorough':
            sdir = os.path.join(scratch, 'verus-seed')
            os.makedirs(sdir)
            for k in kernels:
                r2 = verus_run.run_kernel(k, REPO, sdir, smt_seed=seed + 17)
                stability.append(dict(kernel=k, smt_random_seed=seed + 17, status=r2['status'], verified=r2.get('verified'), errors=r2.get('errors_excl_canary')))
        # ---------------- power check (thorough tier, scratch copies only)
        known_obs = set(k['obligation'] for k in known['findings'] if k['property'] == prop)

        def clean(r):   # verified, or failing only in obligations recorded as known findings of this property
            return r['status'] == 'ok' or (r['status'] == 'failed' and all(f['obligation'] in known_obs or (f['props'] and prop not in f['props']) for f in r.get('failed', [])))
        if tier == 'thorough' and not violations and all(clean(r) for r in verus_results):
            mutant_results = mutants.run_for_kernels(set(kernels), REPO)
            for m in mutant_results:
                if m['outcome'] == 'SURVIVED':
                    undecided.append('weak contract: mutant %s of kernel %s survives' % (m['id'], m['kernel']))
        # ---------------- reachability behind every precondition (thorough tier): `assert(false)` at the start of every
        # function under contract must FAIL; one that verifies has a contradictory `requires` (vacuous contract)
        if tier == 'thorough' and not violations and all(clean(r) for r in verus_results):
            for k in kernels:
                pr = verus_run.reach_probe(k, REPO, os.path.join(scratch, 'verus-probe-' + k))
                reach.append(pr)
                if pr['status'] == 'vacuous':
                    undecided.append('vacuous contract in kernel %s: the body of %s is unreachable under its precondition' % (k, ', '.join(pr['vacuous'])))
                elif pr['status'] == 'undecided':
                    undecided.append('reachability probe of kernel %s did not run: %s' % (k, pr.get('reason', '')[:200]))
    finally:
        shutil.rmtree(scratch, ignore_errors=True)

    # ---------------- evidence
    # verification units that count for THIS property: Verus' own total also contains the derive expansions (`X::clone`)
    # of every extracted type and the functions of included overlays that serve other properties.  Counted here: units
    # that verified AND are (a) an extracted function (not a stub) or (b) a lemma / spec fn written in an overlay,
    # in both cases from an overlay whose `serves=` names this property.
    n_v_raw = sum(r.get('verified', 0) for r in verus_results)
    counted_units = []
    for r in verus_results:
        rel = set(f['name'] for f in r.get('functions', []) if prop in f.get('serves', []) and not f.get('stub'))
        rel |= set(a['name'] for a in r.get('aux_fns', []) if prop in a.get('serves', []))
        seen = set()
        for f in r.get('per_function', []):
            nm = f['function']
            if f.get('ok') and nm != 'verif_canary_must_fail' and nm in rel and nm not in seen:     # exact names only (`X::clone` never matches an overlay's `clone`)
                seen.add(nm)
                counted_units.append('%s:%s' % (r['kernel'], nm))
    n_v_units = len(counted_units)
    # failed verification units that matter for THIS property: untagged failures, or clauses tagged with it
    stale_obs = set(x['obligation'] for x in stale)
    n_v_fail = len(set((r['kernel'], f['function']) for r in verus_results if r['status'] == 'failed' for f in r.get('failed', [])
                       if (not f['props'] or prop in f['props']) and f['obligation'] not in stale_obs))
    p_h = [r for r in kani_results if r['meta']['kind'] == 'P' and r['meta']['expect'] != 'fail']
    b_h = [r for r in kani_results if r['meta']['kind'] == 'B']
    n_k_ok = sum(1 for r in p_h if r['status'] == 'proved')
    # obligations that fail exactly as a recorded known finding are reported separately, not counted
    kf_kani = set(e.get('harness') for _, e in known_hits if e.get('harness'))
    kf_verus = sum(1 for _, e in known_hits if e.get('verus'))
    p_h_counted = [r for r in p_h if r['harness'] not in kf_kani]
    obligations = n_v_units + max(n_v_fail - kf_verus, 0) + len(p_h_counted)
    discharged = n_v_units + sum(1 for r in p_h_counted if r['status'] == 'proved')
    tags = [t for r in verus_results for t in r.get('tags', []) if not t['props'] or prop in t['props']]
    fns = [dict(function=f['name'], file=f['file'], lines=f['lines'], under_contract=f['contract'], kernel=r['kernel'])
           for r in verus_results for f in r.get('functions', [])]
    samples = [dict(obligation=t['id'], backend='verus/z3') for t in tags[:6]]
    samples += [dict(obligation=r['meta']['name'], backend='kani/cbmc', cbmc_checks=r['checks'], seconds=r['seconds'], status=r['status']) for r in kani_results[:6]]
    cov = dict(
        verus_units_counted=n_v_units, verus_units_raw_incl_derive_expansions_and_other_properties=n_v_raw, verus_units_counted_names=counted_units,
        obligations=obligations, discharged=discharged,
        checker_cmd='; '.join([r.get('cmd', '') for r in verus_results][:2] + [r['cmd'] for r in kani_results[:1]]) or 'none',
        trusted_base=cfg.get('trusted_base', []) + P.STANDING_TRUST,
        samples=samples,
        verus=dict(kernels=[dict(kernel=r['kernel'], status=r['status'], verified_units=r.get('verified'), errors=r.get('errors_excl_canary'),
                                 canary_failed_as_expected=r.get('canary_failed_as_expected'), smt_time_ms=r.get('smt_time_ms'), total_time_ms=r.get('total_time_ms'),
                                 regions_self_checked=r.get('regions_checked'), reason=r.get('reason'),
                                 failed=[dict(obligation=f['obligation'], function=f['function'], message=f['message']) for f in r.get('failed', [])])
                            for r in verus_results],
                   tagged_clauses_for_property=len(tags), tagged_clause_ids=[t['id'] for t in tags],
                   functions=fns, rewrite_log=[e for r in verus_results for e in r.get('rewrite_log', [])],
                   assumption_scan=[dict(kernel=r['kernel'], **a) for r in verus_results for a in r.get('assumption_scan', [])]),
        kani_assumption_scan=kani_scan([r['meta']['module'] for r in kani_results]),
        kani=dict(harnesses=[dict(harness=r['harness'], status=r['status'], kind=r['meta']['kind'], form=r['meta']['form'], bound=r['meta']['bound'], unwind=r['meta']['unwind'],
                                  cbmc_checks=r['checks'], seconds=r['seconds'], covers_satisfied=sum(1 for c in r.get('covers', []) if c['status'] == 'SATISFIED'),
                                  covers_total=len(r.get('covers', [])), stubs=r.get('stubs', []), functions=r['meta']['pair'], clause=r['meta']['clause'],
                                  failed_checks=r['failed_checks'][:5], replay=r.get('replay')) for r in kani_results]),
        bounded=[dict(harness=r['harness'], bound=r['meta']['bound'], status=r['status'], note='bounded stand-in: NOT counted under obligations/discharged') for r in b_h],
        proof_stability_under_other_smt_seed=stability or None,
        reachability_probe_behind_each_precondition=[dict(kernel=p['kernel'], functions_probed=len(p['probed']), vacuous=p['vacuous'], status=p['status']) for p in reach] or None,
        mutant_power_check=dict(run=len(mutant_results), killed=sum(1 for m in mutant_results if m['outcome'] == 'killed'), results=mutant_results) if mutant_results else None,
        proof_script_stale=stale, undecided=undecided, also_failed_not_replayed=also_failed,
        known_findings_hit=[dict(id=k['id'], obligation=k['obligation'], what=k['what'], note='fails exactly as recorded in known_findings.json; excluded from obligations/discharged') for k, _ in known_hits],
        not_decided_by_this_check=cfg.get('glue', []),
        explanation=cfg.get('explanation', ''),
    )
    ev['coverage'] = cov
    ev['assumptions'] = cfg.get('assumptions', []) + P.STANDING_ASSUMPTIONS
    ev['violations'] = len(violations)
    ev['wall_s'] = round(time.time() - t0, 1)
    if obligations == 0:
        undecided.append('no obligations were generated (vacuous run)')
    write_json(os.path.join(OUT, 'evidence', prop + '.json'), ev)
    # ---------------- verdict
    printed = set()
    for k, _ in known_hits:
        if k['id'] not in printed:     # one line per recorded finding (it may fail at several sites of the same caller)
            printed.add(k['id'])
            print('KNOWN-FINDING: property=%s %s' % (prop, k['what']))
    for s in stale:
        print('note: proof_script_stale obligation=%s (complete Kani proof of the same clause holds)' % s['obligation'])
    if violations:
        for v in violations:
            print('VIOLATION property=%s replay=%s%s' % (prop, v['replay'], '' if v['with_input'] else ' no-failing-input-found'))
            print('  obligation=%s: %s' % (v['obligation'], v['note']))
        for a in also_failed:
            print('  also failing (not replayed): %s' % a['obligation'])
        return 1
    if undecided:
        for u in undecided:
            print('UNDECIDED property=%s: %s' % (prop, u[:600]))
        return 2
    print('OK property=%s tier=%s obligations=%d discharged=%d (verus units %d, kani complete harnesses %d, bounded %d) wall=%.0fs'
          % (prop, tier, obligations, discharged, n_v_units, n_k_ok, len(b_h), ev['wall_s']))
    return 0


def replay(prop, path):
    e = json.load(open(path))
    if e.get('backend') != 'kani/cbmc':
        print('replay file names obligation %s; verifier output:\n%s' % (e['obligation'], e.get('verifier_output', '')))
        print('re-run: %s' % e.get('rerun'))
        return 0
    scratch = tempfile.mkdtemp(prefix='asca-verif-replay-')
    try:
        kdir = os.path.join(scratch, 'crate')
        h = [x for x in harness_catalog() if x['full'] == e['harness']][0]
        kani_run.prepare(REPO, kdir, keep={h['name']})
        log = []
        confirmed, detail = native_replay(kdir, h, e['playback_test'], log)
        print('native replay of %s: %s %s' % (e['harness'], 'assertion FAILS (violation reproduced)' if confirmed else 'passes' if confirmed is False else 'could not run', detail))
        return 1 if confirmed else 0
    finally:
        shutil.rmtree(scratch, ignore_errors=True)


def main(argv):
    if len(argv) < 2:
        print(__doc__)
        return 2
    prop = argv[1]
    tier = os.environ.get('VERIF_TIER', 'quick')
    seed = int(os.environ.get('VERIF_SEED', '0'))
    if '--tier' in argv:
        tier = argv[argv.index('--tier') + 1]
    if '--replay' in argv:
        return replay(prop, argv[argv.index('--replay') + 1])
    if prop not in P.PROPS:
        print('property %s is not claimed (see MANIFEST.json not_applicable)' % prop)
        return 2
    return run(prop, tier, seed)


if __name__ == '__main__':
    sys.exit(main(sys.argv))
