"""Power check (thorough tier): every listed one-line mutant of a function under contract must make
its Verus kernel report a failed obligation.  Run on scratch copies only; never touches /repo."""
import concurrent.futures as cf
import json
import os
import shutil
import sys
import tempfile

sys.path.insert(0, os.path.dirname(__file__))
import verus_run  # noqa: E402

VERIF = os.path.dirname(os.path.dirname(os.path.abspath(__file__)))


def run_for_kernels(kernels, repo):
    spec = json.load(open(os.path.join(VERIF, 'contracts', 'mutants.json')))
    # a kernel that includes another overlay re-verifies its functions too, so its mutants count as well
    kernels = set(kernels)
    grew = True
    while grew:
        grew = False
        for k in list(kernels):
            ov = os.path.join(VERIF, 'contracts', 'verus', k + '.v.rs')
            for ln in open(ov, encoding='utf-8') if os.path.exists(ov) else []:
                if ln.startswith('//@ include '):
                    inc = ln.split()[2].replace('.v.rs', '')
                    if inc not in kernels:
                        kernels.add(inc)
                        grew = True
    todo = [m for m in spec['mutants'] if m['kernel'] in kernels]
    base = tempfile.mkdtemp(prefix='asca-verif-mut-')
    results = []

    # obligations that already fail on the unmutated tree (recorded findings): a mutant counts as killed only by a NEW one
    baseline = {}
    for k in sorted(set(m['kernel'] for m in todo)):
        wd0 = os.path.join(base, '_baseline_' + k)
        os.makedirs(wd0)
        r0 = verus_run.run_kernel(k, repo, wd0, canary=False)
        baseline[k] = set((f['obligation'], f['message']) for f in r0.get('failed', [])) if r0['status'] == 'failed' else set()

    def one(m):
        d = os.path.join(base, m['id'])
        os.makedirs(d)
        shutil.copytree(os.path.join(repo, 'src'), os.path.join(d, 'src'))
        p = os.path.join(d, m['file'])
        text = open(p, encoding='utf-8').read()
        if text.count(m['old']) != 1:
            return dict(id=m['id'], kernel=m['kernel'], outcome='skipped', note='anchor text occurs %d times (code moved on)' % text.count(m['old']))
        with open(p, 'w', encoding='utf-8') as f:
            f.write(text.replace(m['old'], m['new'], 1))
        wd = os.path.join(d, 'verus')
        os.makedirs(wd)
        r = verus_run.run_kernel(m['kernel'], d, wd, canary=False)
        if r['status'] == 'failed':
            fresh = sorted(set(f['obligation'] + ('' if f['obligation'] not in [b[0] for b in baseline[m['kernel']]] else ' (' + f['message'] + ')')
                               for f in r['failed'] if (f['obligation'], f['message']) not in baseline[m['kernel']]))
            if fresh:
                return dict(id=m['id'], kernel=m['kernel'], outcome='killed', by=fresh[:4])
            return dict(id=m['id'], kernel=m['kernel'], outcome='SURVIVED', note='only the obligations that already fail on the unmutated tree fail')
        if r['status'] == 'undecided':
            return dict(id=m['id'], kernel=m['kernel'], outcome='undecided', note=r.get('reason', '')[:200])
        return dict(id=m['id'], kernel=m['kernel'], outcome='SURVIVED', note='contract too weak to notice this change')

    try:
        with cf.ThreadPoolExecutor(max_workers=8) as ex:
            results = list(ex.map(one, todo))
    finally:
        shutil.rmtree(base, ignore_errors=True)
    return results


if __name__ == '__main__':
    ks = sys.argv[1].split(',')
    for r in run_for_kernels(ks, sys.argv[2] if len(sys.argv) > 2 else '/repo'):
        print(json.dumps(r))
