// ---- K4: ModKind::as_bool -- proves, on the real body, the contract the Verus kernel `supras` assumes for it
use crate::seg::verif_kani::{any_alpha_value, alpha_truth, new_alphas, pos0};

pub(crate) fn any_supra_slot() -> Option<ModKind> {
    let k: u8 = kani::any();
    kani::assume(k < 5);
    match k {
        0 => None,
        1 => Some(ModKind::Binary(BinMod::Positive)),
        2 => Some(ModKind::Binary(BinMod::Negative)),
        3 => Some(ModKind::Alpha(AlphaMod::Alpha('α'))),
        _ => Some(ModKind::Alpha(AlphaMod::InvAlpha('α'))),
    }
}
/// spec: truth of a slot under a table in which 'α' is bound to `a` (None = slot absent; Some(None) = unbound alpha)
pub(crate) fn slot_truth(m: &Option<ModKind>, a: &Option<Alpha>) -> Option<Option<bool>> {
    match m {
        None => None,
        Some(ModKind::Binary(b)) => Some(Some(*b == BinMod::Positive)),
        Some(ModKind::Alpha(AlphaMod::Alpha(_))) => Some(a.as_ref().map(alpha_truth)),
        Some(ModKind::Alpha(AlphaMod::InvAlpha(_))) => Some(a.as_ref().map(|x| !alpha_truth(x))),
    }
}
pub(crate) fn any_binding() -> (RefCell<HashMap<char, Alpha>>, Option<Alpha>) {
    let al = new_alphas();
    if kani::any() {
        let a = any_alpha_value();
        al.borrow_mut().insert('α', a.clone());
        (al, Some(a))
    } else { (al, None) }
}

//% props=C05,C07 tier=quick kind=P covers=as_bool.assumed pair=ModKind::as_bool,Alpha::as_binary clause="as_bool == mk_truth: binary -> its polarity; alpha -> the bound truth value (node alphas coerced by is_some); -alpha -> inverse; unbound -> AlphaUnknown"
#[kani::proof]
#[kani::unwind(5)]
fn k4_as_bool() {
    let m = any_supra_slot();
    let (al, a) = any_binding();
    if let Some(mk) = m {
        let r = mk.as_bool(&al, pos0());
        match slot_truth(&m, &a).unwrap() {
            Some(t) => assert!(matches!(r, Ok(b) if b == t), "as_bool returns the carried truth value"),
            None => assert!(matches!(r, Err(RuleRuntimeError::AlphaUnknown(_))), "unbound alpha is AlphaUnknown"),
        }
    }
    if let Some(x) = &a { assert!(x.as_binary() == alpha_truth(x), "Alpha::as_binary coercion as documented"); }
}

// ---- C10 / C06 clause: blank and comment-only lines yield no rule
pub(crate) fn tok(kind: TokenKind, start: usize) -> Token {
    Token { kind, value: Rc::from(""), position: Position::new(kani::any(), kani::any(), start, start + 1) }
}

//% props=C10 tier=quick kind=P pair=Parser::parse,Parser::new clause="a token list starting with Eol (blank line) parses to Ok(None): no rule is produced"
#[kani::proof]
#[kani::unwind(4)]
fn k10_parse_blank() {
    let r = Parser::new(vec![tok(TokenKind::Eol, 0)], kani::any(), kani::any()).parse();
    assert!(matches!(r, Ok(None)), "blank line -> no rule");
}

// ---- C02: the one numeric-literal conversion that can be called without going through the parser
//% props=C02 tier=quick kind=B bound="Number tokens of exactly 20 decimal digits (usize::MAX has 20 digits)" timeout=2400 mem=24 pair=Parser::get_var_assign clause="converting a variable number written by the user must not panic"
#[kani::proof]
#[kani::unwind(22)]
fn k2c_get_var_assign_20_digits() {
    let d: [u8; 20] = kani::any();
    let mut i = 0;
    while i < 20 { kani::assume(d[i] >= b'0' && d[i] <= b'9'); i += 1; }
    let s = unsafe { core::str::from_utf8_unchecked(&d) };
    let number = Token { kind: TokenKind::Number, value: Rc::from(s), position: pos0() };
    let chr = Item::new(ParseElement::Matrix(Modifiers { nodes: [None; 8], feats: [None; 26], suprs: SupraSegs::new() }, None), pos0());
    let mut p = Parser::new(vec![tok(TokenKind::Eol, 0)], 0, 0);
    let it = p.get_var_assign(number, &chr);
    assert!(matches!(it.kind, ParseElement::Matrix(_, Some(_))));
}

use crate::seg::verif_kani::{any_bin_nodes, any_bin_feats, any_binmod};

//% props=C12 tier=quick kind=P timeout=900 twin=k12_join_group_one_slot pair=Parser::join_group_with_params clause="`G:[params]`: every parameter named in the matrix overrides the group's value, every slot the matrix leaves open keeps the group's value (all slots symbolic at once)"
#[kani::proof]
#[kani::unwind(28)]
fn k12_join_group_with_params() {
    let g = Modifiers { nodes: any_bin_nodes(), feats: any_bin_feats(), suprs: SupraSegs { stress: [any_supra_slot(), any_supra_slot()], length: [any_supra_slot(), any_supra_slot()], tone: kani::any() } };
    let q = Modifiers { nodes: any_bin_nodes(), feats: any_bin_feats(), suprs: SupraSegs { stress: [any_supra_slot(), any_supra_slot()], length: [any_supra_slot(), any_supra_slot()], tone: kani::any() } };
    let mut p = Parser::new(vec![tok(TokenKind::Eol, 0)], 0, 0);
    let r = p.join_group_with_params(Item::new(ParseElement::Matrix(g.clone(), None), pos0()), Item::new(ParseElement::Matrix(q.clone(), None), pos0()));
    match r.kind {
        ParseElement::Matrix(m, None) => {
            let mut i = 0;
            while i < 26 { assert!(m.feats[i] == if q.feats[i].is_some() { q.feats[i] } else { g.feats[i] }, "feature slot: parameter overrides, else group value"); i += 1; }
            let mut k = 0;
            while k < 8 { assert!(m.nodes[k] == if q.nodes[k].is_some() { q.nodes[k] } else { g.nodes[k] }, "node slot: parameter overrides, else group value"); k += 1; }
            let mut j = 0;
            while j < 2 {
                assert!(m.suprs.stress[j] == if q.suprs.stress[j].is_some() { q.suprs.stress[j] } else { g.suprs.stress[j] });
                assert!(m.suprs.length[j] == if q.suprs.length[j].is_some() { q.suprs.length[j] } else { g.suprs.length[j] });
                j += 1;
            }
            assert!(m.suprs.tone == if q.suprs.tone.is_some() { q.suprs.tone } else { g.suprs.tone });
        }
        _ => assert!(false),
    }
}

/// one symbolic slot at a time (small traces: used to obtain and replay a counterexample)
//% props=C12 tier=quick kind=P timeout=900 pair=Parser::join_group_with_params clause="`G:[params]` for one symbolic feature slot and one symbolic node slot"
#[kani::proof]
#[kani::unwind(28)]
fn k12_join_group_one_slot() {
    let i: usize = kani::any();
    let k: usize = kani::any();
    kani::assume(i < 26 && k < 8);
    let mut g = Modifiers { nodes: [None; 8], feats: [None; 26], suprs: SupraSegs::new() };
    let mut q = Modifiers { nodes: [None; 8], feats: [None; 26], suprs: SupraSegs::new() };
    g.feats[i] = any_binmod(); q.feats[i] = any_binmod();
    g.nodes[k] = any_binmod(); q.nodes[k] = any_binmod();
    let mut p = Parser::new(vec![tok(TokenKind::Eol, 0)], 0, 0);
    let r = p.join_group_with_params(Item::new(ParseElement::Matrix(g.clone(), None), pos0()), Item::new(ParseElement::Matrix(q.clone(), None), pos0()));
    match r.kind {
        ParseElement::Matrix(m, None) => {
            assert!(m.feats[i] == if q.feats[i].is_some() { q.feats[i] } else { g.feats[i] }, "feature slot: parameter overrides, else group value");
            assert!(m.nodes[k] == if q.nodes[k].is_some() { q.nodes[k] } else { g.nodes[k] }, "node slot: parameter overrides, else group value");
        }
        _ => assert!(false),
    }
}

// ==== GENERATED by tools/gen_table_harnesses.py -- do not edit below ====
const P: Option<ModKind> = Some(ModKind::Binary(BinMod::Positive));
const N: Option<ModKind> = Some(ModKind::Binary(BinMod::Negative));

//% props=C12 tier=quick kind=P timeout=900 pair=Parser::group_to_matrix clause="capital A is not a documented group and is rejected"
#[kani::proof]
#[kani::unwind(30)]
fn k12_rule_group_A() {
    let p = Parser::new(vec![tok(TokenKind::Eol, 0)], kani::any(), kani::any());
    let t = Token { kind: TokenKind::Group, value: Rc::from("A"), position: Position::new(kani::any(), kani::any(), 0, 1) };
    let r = p.group_to_matrix(&t);
    assert!(matches!(r, Err(RuleSyntaxError::UnknownGrouping(_))), "undocumented capital is not a group");
}

//% props=C12 tier=quick kind=P timeout=900 pair=Parser::group_to_matrix clause="capital B is not a documented group and is rejected"
#[kani::proof]
#[kani::unwind(30)]
fn k12_rule_group_B() {
    let p = Parser::new(vec![tok(TokenKind::Eol, 0)], kani::any(), kani::any());
    let t = Token { kind: TokenKind::Group, value: Rc::from("B"), position: Position::new(kani::any(), kani::any(), 0, 1) };
    let r = p.group_to_matrix(&t);
    assert!(matches!(r, Err(RuleSyntaxError::UnknownGrouping(_))), "undocumented capital is not a group");
}

//% props=C12 tier=quick kind=P timeout=900 pair=Parser::group_to_matrix clause="group letter C == -Syllabic"
#[kani::proof]
#[kani::unwind(30)]
fn k12_rule_group_C() {
    let p = Parser::new(vec![tok(TokenKind::Eol, 0)], kani::any(), kani::any());
    let t = Token { kind: TokenKind::Group, value: Rc::from("C"), position: Position::new(kani::any(), kani::any(), 0, 1) };
    let r = p.group_to_matrix(&t);
    let want: [Option<ModKind>; 26] = [None, None, N, None, None, None, None, None, None, None, None, None, None, None, None, None, None, None, None, None, None, None, None, None, None, None];
    match r {
        Ok(Item { kind: ParseElement::Matrix(m, None), .. }) => {
            assert!(m.feats == want, "group letter = exactly the matrix the manual tabulates (every one of the 26 slots)");
            assert!(m.nodes == [None; 8] && m.suprs == SupraSegs::new(), "a group names no node and no suprasegmental");
        }
        _ => assert!(false, "documented group letter must be accepted"),
    }
}

//% props=C12 tier=quick kind=P timeout=900 pair=Parser::group_to_matrix clause="capital D is not a documented group and is rejected"
#[kani::proof]
#[kani::unwind(30)]
fn k12_rule_group_D() {
    let p = Parser::new(vec![tok(TokenKind::Eol, 0)], kani::any(), kani::any());
    let t = Token { kind: TokenKind::Group, value: Rc::from("D"), position: Position::new(kani::any(), kani::any(), 0, 1) };
    let r = p.group_to_matrix(&t);
    assert!(matches!(r, Err(RuleSyntaxError::UnknownGrouping(_))), "undocumented capital is not a group");
}

//% props=C12 tier=quick kind=P timeout=900 pair=Parser::group_to_matrix clause="capital E is not a documented group and is rejected"
#[kani::proof]
#[kani::unwind(30)]
fn k12_rule_group_E() {
    let p = Parser::new(vec![tok(TokenKind::Eol, 0)], kani::any(), kani::any());
    let t = Token { kind: TokenKind::Group, value: Rc::from("E"), position: Position::new(kani::any(), kani::any(), 0, 1) };
    let r = p.group_to_matrix(&t);
    assert!(matches!(r, Err(RuleSyntaxError::UnknownGrouping(_))), "undocumented capital is not a group");
}

//% props=C12 tier=quick kind=P timeout=900 pair=Parser::group_to_matrix clause="group letter F == +Consonantal -Sonorant -Syllabic -Approximant +Continuant"
#[kani::proof]
#[kani::unwind(30)]
fn k12_rule_group_F() {
    let p = Parser::new(vec![tok(TokenKind::Eol, 0)], kani::any(), kani::any());
    let t = Token { kind: TokenKind::Group, value: Rc::from("F"), position: Position::new(kani::any(), kani::any(), 0, 1) };
    let r = p.group_to_matrix(&t);
    let want: [Option<ModKind>; 26] = [P, N, N, P, N, None, None, None, None, None, None, None, None, None, None, None, None, None, None, None, None, None, None, None, None, None];
    match r {
        Ok(Item { kind: ParseElement::Matrix(m, None), .. }) => {
            assert!(m.feats == want, "group letter = exactly the matrix the manual tabulates (every one of the 26 slots)");
            assert!(m.nodes == [None; 8] && m.suprs == SupraSegs::new(), "a group names no node and no suprasegmental");
        }
        _ => assert!(false, "documented group letter must be accepted"),
    }
}

//% props=C12 tier=quick kind=P timeout=900 pair=Parser::group_to_matrix clause="group letter G == -Consonantal +Sonorant -Syllabic"
#[kani::proof]
#[kani::unwind(30)]
fn k12_rule_group_G() {
    let p = Parser::new(vec![tok(TokenKind::Eol, 0)], kani::any(), kani::any());
    let t = Token { kind: TokenKind::Group, value: Rc::from("G"), position: Position::new(kani::any(), kani::any(), 0, 1) };
    let r = p.group_to_matrix(&t);
    let want: [Option<ModKind>; 26] = [N, P, N, None, None, None, None, None, None, None, None, None, None, None, None, None, None, None, None, None, None, None, None, None, None, None];
    match r {
        Ok(Item { kind: ParseElement::Matrix(m, None), .. }) => {
            assert!(m.feats == want, "group letter = exactly the matrix the manual tabulates (every one of the 26 slots)");
            assert!(m.nodes == [None; 8] && m.suprs == SupraSegs::new(), "a group names no node and no suprasegmental");
        }
        _ => assert!(false, "documented group letter must be accepted"),
    }
}

//% props=C12 tier=quick kind=P timeout=900 pair=Parser::group_to_matrix clause="capital H is not a documented group and is rejected"
#[kani::proof]
#[kani::unwind(30)]
fn k12_rule_group_H() {
    let p = Parser::new(vec![tok(TokenKind::Eol, 0)], kani::any(), kani::any());
    let t = Token { kind: TokenKind::Group, value: Rc::from("H"), position: Position::new(kani::any(), kani::any(), 0, 1) };
    let r = p.group_to_matrix(&t);
    assert!(matches!(r, Err(RuleSyntaxError::UnknownGrouping(_))), "undocumented capital is not a group");
}

//% props=C12 tier=quick kind=P timeout=900 pair=Parser::group_to_matrix clause="capital I is not a documented group and is rejected"
#[kani::proof]
#[kani::unwind(30)]
fn k12_rule_group_I() {
    let p = Parser::new(vec![tok(TokenKind::Eol, 0)], kani::any(), kani::any());
    let t = Token { kind: TokenKind::Group, value: Rc::from("I"), position: Position::new(kani::any(), kani::any(), 0, 1) };
    let r = p.group_to_matrix(&t);
    assert!(matches!(r, Err(RuleSyntaxError::UnknownGrouping(_))), "undocumented capital is not a group");
}

//% props=C12 tier=quick kind=P timeout=900 pair=Parser::group_to_matrix clause="capital J is not a documented group and is rejected"
#[kani::proof]
#[kani::unwind(30)]
fn k12_rule_group_J() {
    let p = Parser::new(vec![tok(TokenKind::Eol, 0)], kani::any(), kani::any());
    let t = Token { kind: TokenKind::Group, value: Rc::from("J"), position: Position::new(kani::any(), kani::any(), 0, 1) };
    let r = p.group_to_matrix(&t);
    assert!(matches!(r, Err(RuleSyntaxError::UnknownGrouping(_))), "undocumented capital is not a group");
}

//% props=C12 tier=quick kind=P timeout=900 pair=Parser::group_to_matrix clause="capital K is not a documented group and is rejected"
#[kani::proof]
#[kani::unwind(30)]
fn k12_rule_group_K() {
    let p = Parser::new(vec![tok(TokenKind::Eol, 0)], kani::any(), kani::any());
    let t = Token { kind: TokenKind::Group, value: Rc::from("K"), position: Position::new(kani::any(), kani::any(), 0, 1) };
    let r = p.group_to_matrix(&t);
    assert!(matches!(r, Err(RuleSyntaxError::UnknownGrouping(_))), "undocumented capital is not a group");
}

//% props=C12 tier=quick kind=P timeout=900 pair=Parser::group_to_matrix clause="group letter L == +Consonantal +Sonorant -Syllabic +Approximant"
#[kani::proof]
#[kani::unwind(30)]
fn k12_rule_group_L() {
    let p = Parser::new(vec![tok(TokenKind::Eol, 0)], kani::any(), kani::any());
    let t = Token { kind: TokenKind::Group, value: Rc::from("L"), position: Position::new(kani::any(), kani::any(), 0, 1) };
    let r = p.group_to_matrix(&t);
    let want: [Option<ModKind>; 26] = [P, P, N, None, P, None, None, None, None, None, None, None, None, None, None, None, None, None, None, None, None, None, None, None, None, None];
    match r {
        Ok(Item { kind: ParseElement::Matrix(m, None), .. }) => {
            assert!(m.feats == want, "group letter = exactly the matrix the manual tabulates (every one of the 26 slots)");
            assert!(m.nodes == [None; 8] && m.suprs == SupraSegs::new(), "a group names no node and no suprasegmental");
        }
        _ => assert!(false, "documented group letter must be accepted"),
    }
}

//% props=C12 tier=quick kind=P timeout=900 pair=Parser::group_to_matrix clause="capital M is not a documented group and is rejected"
#[kani::proof]
#[kani::unwind(30)]
fn k12_rule_group_M() {
    let p = Parser::new(vec![tok(TokenKind::Eol, 0)], kani::any(), kani::any());
    let t = Token { kind: TokenKind::Group, value: Rc::from("M"), position: Position::new(kani::any(), kani::any(), 0, 1) };
    let r = p.group_to_matrix(&t);
    assert!(matches!(r, Err(RuleSyntaxError::UnknownGrouping(_))), "undocumented capital is not a group");
}

//% props=C12 tier=quick kind=P timeout=900 pair=Parser::group_to_matrix clause="group letter N == +Consonantal +Sonorant -Syllabic -Approximant +Nasal"
#[kani::proof]
#[kani::unwind(30)]
fn k12_rule_group_N() {
    let p = Parser::new(vec![tok(TokenKind::Eol, 0)], kani::any(), kani::any());
    let t = Token { kind: TokenKind::Group, value: Rc::from("N"), position: Position::new(kani::any(), kani::any(), 0, 1) };
    let r = p.group_to_matrix(&t);
    let want: [Option<ModKind>; 26] = [P, P, N, None, N, None, P, None, None, None, None, None, None, None, None, None, None, None, None, None, None, None, None, None, None, None];
    match r {
        Ok(Item { kind: ParseElement::Matrix(m, None), .. }) => {
            assert!(m.feats == want, "group letter = exactly the matrix the manual tabulates (every one of the 26 slots)");
            assert!(m.nodes == [None; 8] && m.suprs == SupraSegs::new(), "a group names no node and no suprasegmental");
        }
        _ => assert!(false, "documented group letter must be accepted"),
    }
}

//% props=C12 tier=quick kind=P timeout=900 pair=Parser::group_to_matrix clause="group letter O == +Consonantal -Sonorant -Syllabic"
#[kani::proof]
#[kani::unwind(30)]
fn k12_rule_group_O() {
    let p = Parser::new(vec![tok(TokenKind::Eol, 0)], kani::any(), kani::any());
    let t = Token { kind: TokenKind::Group, value: Rc::from("O"), position: Position::new(kani::any(), kani::any(), 0, 1) };
    let r = p.group_to_matrix(&t);
    let want: [Option<ModKind>; 26] = [P, N, N, None, None, None, None, None, None, None, None, None, None, None, None, None, None, None, None, None, None, None, None, None, None, None];
    match r {
        Ok(Item { kind: ParseElement::Matrix(m, None), .. }) => {
            assert!(m.feats == want, "group letter = exactly the matrix the manual tabulates (every one of the 26 slots)");
            assert!(m.nodes == [None; 8] && m.suprs == SupraSegs::new(), "a group names no node and no suprasegmental");
        }
        _ => assert!(false, "documented group letter must be accepted"),
    }
}

//% props=C12 tier=quick kind=P timeout=900 pair=Parser::group_to_matrix clause="group letter P == +Consonantal -Sonorant -Syllabic -DelayedRelease -Continuant"
#[kani::proof]
#[kani::unwind(30)]
fn k12_rule_group_P() {
    let p = Parser::new(vec![tok(TokenKind::Eol, 0)], kani::any(), kani::any());
    let t = Token { kind: TokenKind::Group, value: Rc::from("P"), position: Position::new(kani::any(), kani::any(), 0, 1) };
    let r = p.group_to_matrix(&t);
    let want: [Option<ModKind>; 26] = [P, N, N, N, None, None, None, N, None, None, None, None, None, None, None, None, None, None, None, None, None, None, None, None, None, None];
    match r {
        Ok(Item { kind: ParseElement::Matrix(m, None), .. }) => {
            assert!(m.feats == want, "group letter = exactly the matrix the manual tabulates (every one of the 26 slots)");
            assert!(m.nodes == [None; 8] && m.suprs == SupraSegs::new(), "a group names no node and no suprasegmental");
        }
        _ => assert!(false, "documented group letter must be accepted"),
    }
}

//% props=C12 tier=quick kind=P timeout=900 pair=Parser::group_to_matrix clause="capital Q is not a documented group and is rejected"
#[kani::proof]
#[kani::unwind(30)]
fn k12_rule_group_Q() {
    let p = Parser::new(vec![tok(TokenKind::Eol, 0)], kani::any(), kani::any());
    let t = Token { kind: TokenKind::Group, value: Rc::from("Q"), position: Position::new(kani::any(), kani::any(), 0, 1) };
    let r = p.group_to_matrix(&t);
    assert!(matches!(r, Err(RuleSyntaxError::UnknownGrouping(_))), "undocumented capital is not a group");
}

//% props=C12 tier=quick kind=P timeout=900 pair=Parser::group_to_matrix clause="capital R is not a documented group and is rejected"
#[kani::proof]
#[kani::unwind(30)]
fn k12_rule_group_R() {
    let p = Parser::new(vec![tok(TokenKind::Eol, 0)], kani::any(), kani::any());
    let t = Token { kind: TokenKind::Group, value: Rc::from("R"), position: Position::new(kani::any(), kani::any(), 0, 1) };
    let r = p.group_to_matrix(&t);
    assert!(matches!(r, Err(RuleSyntaxError::UnknownGrouping(_))), "undocumented capital is not a group");
}

//% props=C12 tier=quick kind=P timeout=900 pair=Parser::group_to_matrix clause="group letter S == +Consonantal +Sonorant -Syllabic"
#[kani::proof]
#[kani::unwind(30)]
fn k12_rule_group_S() {
    let p = Parser::new(vec![tok(TokenKind::Eol, 0)], kani::any(), kani::any());
    let t = Token { kind: TokenKind::Group, value: Rc::from("S"), position: Position::new(kani::any(), kani::any(), 0, 1) };
    let r = p.group_to_matrix(&t);
    let want: [Option<ModKind>; 26] = [P, P, N, None, None, None, None, None, None, None, None, None, None, None, None, None, None, None, None, None, None, None, None, None, None, None];
    match r {
        Ok(Item { kind: ParseElement::Matrix(m, None), .. }) => {
            assert!(m.feats == want, "group letter = exactly the matrix the manual tabulates (every one of the 26 slots)");
            assert!(m.nodes == [None; 8] && m.suprs == SupraSegs::new(), "a group names no node and no suprasegmental");
        }
        _ => assert!(false, "documented group letter must be accepted"),
    }
}

//% props=C12 tier=quick kind=P timeout=900 pair=Parser::group_to_matrix clause="capital T is not a documented group and is rejected"
#[kani::proof]
#[kani::unwind(30)]
fn k12_rule_group_T() {
    let p = Parser::new(vec![tok(TokenKind::Eol, 0)], kani::any(), kani::any());
    let t = Token { kind: TokenKind::Group, value: Rc::from("T"), position: Position::new(kani::any(), kani::any(), 0, 1) };
    let r = p.group_to_matrix(&t);
    assert!(matches!(r, Err(RuleSyntaxError::UnknownGrouping(_))), "undocumented capital is not a group");
}

//% props=C12 tier=quick kind=P timeout=900 pair=Parser::group_to_matrix clause="capital U is not a documented group and is rejected"
#[kani::proof]
#[kani::unwind(30)]
fn k12_rule_group_U() {
    let p = Parser::new(vec![tok(TokenKind::Eol, 0)], kani::any(), kani::any());
    let t = Token { kind: TokenKind::Group, value: Rc::from("U"), position: Position::new(kani::any(), kani::any(), 0, 1) };
    let r = p.group_to_matrix(&t);
    assert!(matches!(r, Err(RuleSyntaxError::UnknownGrouping(_))), "undocumented capital is not a group");
}

//% props=C12 tier=quick kind=P timeout=900 pair=Parser::group_to_matrix clause="group letter V == -Consonantal +Sonorant +Syllabic"
#[kani::proof]
#[kani::unwind(30)]
fn k12_rule_group_V() {
    let p = Parser::new(vec![tok(TokenKind::Eol, 0)], kani::any(), kani::any());
    let t = Token { kind: TokenKind::Group, value: Rc::from("V"), position: Position::new(kani::any(), kani::any(), 0, 1) };
    let r = p.group_to_matrix(&t);
    let want: [Option<ModKind>; 26] = [N, P, P, None, None, None, None, None, None, None, None, None, None, None, None, None, None, None, None, None, None, None, None, None, None, None];
    match r {
        Ok(Item { kind: ParseElement::Matrix(m, None), .. }) => {
            assert!(m.feats == want, "group letter = exactly the matrix the manual tabulates (every one of the 26 slots)");
            assert!(m.nodes == [None; 8] && m.suprs == SupraSegs::new(), "a group names no node and no suprasegmental");
        }
        _ => assert!(false, "documented group letter must be accepted"),
    }
}

//% props=C12 tier=quick kind=P timeout=900 pair=Parser::group_to_matrix clause="capital W is not a documented group and is rejected"
#[kani::proof]
#[kani::unwind(30)]
fn k12_rule_group_W() {
    let p = Parser::new(vec![tok(TokenKind::Eol, 0)], kani::any(), kani::any());
    let t = Token { kind: TokenKind::Group, value: Rc::from("W"), position: Position::new(kani::any(), kani::any(), 0, 1) };
    let r = p.group_to_matrix(&t);
    assert!(matches!(r, Err(RuleSyntaxError::UnknownGrouping(_))), "undocumented capital is not a group");
}

//% props=C12 tier=quick kind=P timeout=900 pair=Parser::group_to_matrix clause="capital X is not a documented group and is rejected"
#[kani::proof]
#[kani::unwind(30)]
fn k12_rule_group_X() {
    let p = Parser::new(vec![tok(TokenKind::Eol, 0)], kani::any(), kani::any());
    let t = Token { kind: TokenKind::Group, value: Rc::from("X"), position: Position::new(kani::any(), kani::any(), 0, 1) };
    let r = p.group_to_matrix(&t);
    assert!(matches!(r, Err(RuleSyntaxError::UnknownGrouping(_))), "undocumented capital is not a group");
}

//% props=C12 tier=quick kind=P timeout=900 pair=Parser::group_to_matrix clause="capital Y is not a documented group and is rejected"
#[kani::proof]
#[kani::unwind(30)]
fn k12_rule_group_Y() {
    let p = Parser::new(vec![tok(TokenKind::Eol, 0)], kani::any(), kani::any());
    let t = Token { kind: TokenKind::Group, value: Rc::from("Y"), position: Position::new(kani::any(), kani::any(), 0, 1) };
    let r = p.group_to_matrix(&t);
    assert!(matches!(r, Err(RuleSyntaxError::UnknownGrouping(_))), "undocumented capital is not a group");
}

//% props=C12 tier=quick kind=P timeout=900 pair=Parser::group_to_matrix clause="capital Z is not a documented group and is rejected"
#[kani::proof]
#[kani::unwind(30)]
fn k12_rule_group_Z() {
    let p = Parser::new(vec![tok(TokenKind::Eol, 0)], kani::any(), kani::any());
    let t = Token { kind: TokenKind::Group, value: Rc::from("Z"), position: Position::new(kani::any(), kani::any(), 0, 1) };
    let r = p.group_to_matrix(&t);
    assert!(matches!(r, Err(RuleSyntaxError::UnknownGrouping(_))), "undocumented capital is not a group");
}
