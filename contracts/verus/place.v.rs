//@ kernel place serves=C18,C04,C08,C02
//@ item src/place.rs struct Place
//@ item src/place.rs impl Place members=*

//@ pre
// The real safety contract of the one unsafe std function used in place.rs.
pub assume_specification<T>[ Option::<T>::unwrap_unchecked ](o: Option<T>) -> (r: T)
    requires o.is_some(),
    ensures r == o->0;
//@ end

//@ post
// ------------------------------------------------------------------
// Abstract view of a Place, written from the documented bit layout
// (src/place.rs:5-16): `1111_11_11_111111_11`
//   bits 15..12  presence of [Labial, Coronal, Dorsal, Pharyngeal]
//   bits 11..10  Labial     [labiodental, round]
//   bits  9..8   Coronal    [anterior, distributed]
//   bits  7..2   Dorsal     [front, back, high, low, tense, reduced]
//   bits  1..0   Pharyngeal [atr, rtr]
// ------------------------------------------------------------------
pub open spec fn lab_of(x: u16) -> Option<u8> { if x & 0x8000 == 0x8000 { Some(((x >> 10) & 0b11) as u8) } else { None } }
pub open spec fn cor_of(x: u16) -> Option<u8> { if x & 0x4000 == 0x4000 { Some(((x >> 8) & 0b11) as u8) } else { None } }
pub open spec fn dor_of(x: u16) -> Option<u8> { if x & 0x2000 == 0x2000 { Some(((x >> 2) & 0b111111) as u8) } else { None } }
pub open spec fn phr_of(x: u16) -> Option<u8> { if x & 0x1000 == 0x1000 { Some((x & 0b11) as u8) } else { None } }

/// no stray payload bits under an absent sub-node, and an empty place is absent
pub open spec fn wf_bits(x: u16) -> bool {
    &&& x != 0
    &&& (x & 0x8000 == 0 ==> x & 0x0c00 == 0)
    &&& (x & 0x4000 == 0 ==> x & 0x0300 == 0)
    &&& (x & 0x2000 == 0 ==> x & 0x00fc == 0)
    &&& (x & 0x1000 == 0 ==> x & 0x0003 == 0)
}

pub closed spec fn raw(p: Place) -> Option<u16> { p.0 }
pub closed spec fn lab_view(p: Place) -> Option<u8> { match p.0 { Some(x) => lab_of(x), None => None } }
pub closed spec fn cor_view(p: Place) -> Option<u8> { match p.0 { Some(x) => cor_of(x), None => None } }
pub closed spec fn dor_view(p: Place) -> Option<u8> { match p.0 { Some(x) => dor_of(x), None => None } }
pub closed spec fn phr_view(p: Place) -> Option<u8> { match p.0 { Some(x) => phr_of(x), None => None } }
pub closed spec fn wf_place(p: Place) -> bool { match p.0 { Some(x) => wf_bits(x), None => true } }
pub open spec fn in2(m: Option<u8>) -> bool { m matches Some(v) ==> v <= 3 }
pub open spec fn in6(m: Option<u8>) -> bool { m matches Some(v) ==> v <= 63 }

// ---- bit-vector lemmas: one per (sub-node, case).  y is the value the setter writes.
proof fn lemma_lab_some(x: u16, m: u8, y: u16) by (bit_vector)
    requires m <= 3, y == ((x | 0x8000u16) & !0x0c00u16) | ((m as u16) << 10u16)
    ensures y & 0x8000 == 0x8000, (y >> 10) & 0b11 == m as u16,
        y & 0x4000 == x & 0x4000, (y >> 8) & 0b11 == (x >> 8) & 0b11,
        y & 0x2000 == x & 0x2000, (y >> 2) & 0b111111 == (x >> 2) & 0b111111,
        y & 0x1000 == x & 0x1000, y & 0b11 == x & 0b11,
        y & 0x0300 == x & 0x0300, y & 0x00fc == x & 0x00fc, y != 0,
{}
proof fn lemma_lab_new(m: u8, y: u16) by (bit_vector)
    requires m <= 3, y == 0x8000u16 | ((0x03u16 & m as u16) << 10u16)
    ensures y & 0x8000 == 0x8000, (y >> 10) & 0b11 == m as u16,
        y & 0x4000 == 0, y & 0x2000 == 0, y & 0x1000 == 0,
        y & 0x0300 == 0, y & 0x00fc == 0, y & 0x0003 == 0, y != 0,
{}
proof fn lemma_lab_none(x: u16, y: u16) by (bit_vector)
    requires y == x & !(0x8000u16 | 0x0c00u16)
    ensures y & 0x8000 == 0, y & 0x0c00 == 0,
        y & 0x4000 == x & 0x4000, (y >> 8) & 0b11 == (x >> 8) & 0b11,
        y & 0x2000 == x & 0x2000, (y >> 2) & 0b111111 == (x >> 2) & 0b111111,
        y & 0x1000 == x & 0x1000, y & 0b11 == x & 0b11,
        y & 0x0300 == x & 0x0300, y & 0x00fc == x & 0x00fc,
        (y == 0) == (x & 0x7000 == 0 && x & 0x03ff == 0),
{}

proof fn lemma_cor_some(x: u16, m: u8, y: u16) by (bit_vector)
    requires m <= 3, y == ((x | 0x4000u16) & !0x0300u16) | ((m as u16) << 8u16)
    ensures y & 0x4000 == 0x4000, (y >> 8) & 0b11 == m as u16,
        y & 0x8000 == x & 0x8000, (y >> 10) & 0b11 == (x >> 10) & 0b11,
        y & 0x2000 == x & 0x2000, (y >> 2) & 0b111111 == (x >> 2) & 0b111111,
        y & 0x1000 == x & 0x1000, y & 0b11 == x & 0b11,
        y & 0x0c00 == x & 0x0c00, y & 0x00fc == x & 0x00fc, y != 0,
{}
proof fn lemma_cor_new(m: u8, y: u16) by (bit_vector)
    requires m <= 3, y == 0x4000u16 | ((0x03u16 & m as u16) << 8u16)
    ensures y & 0x4000 == 0x4000, (y >> 8) & 0b11 == m as u16,
        y & 0x8000 == 0, y & 0x2000 == 0, y & 0x1000 == 0,
        y & 0x0c00 == 0, y & 0x00fc == 0, y & 0x0003 == 0, y != 0,
{}
proof fn lemma_cor_none(x: u16, y: u16) by (bit_vector)
    requires y == x & !(0x4000u16 | 0x0300u16)
    ensures y & 0x4000 == 0, y & 0x0300 == 0,
        y & 0x8000 == x & 0x8000, (y >> 10) & 0b11 == (x >> 10) & 0b11,
        y & 0x2000 == x & 0x2000, (y >> 2) & 0b111111 == (x >> 2) & 0b111111,
        y & 0x1000 == x & 0x1000, y & 0b11 == x & 0b11,
        y & 0x0c00 == x & 0x0c00, y & 0x00fc == x & 0x00fc,
        (y == 0) == (x & 0xb000 == 0 && x & 0x0cff == 0),
{}

proof fn lemma_dor_some(x: u16, m: u8, y: u16) by (bit_vector)
    requires m <= 63, y == ((x | 0x2000u16) & !0x00fcu16) | ((m as u16) << 2u16)
    ensures y & 0x2000 == 0x2000, (y >> 2) & 0b111111 == m as u16,
        y & 0x8000 == x & 0x8000, (y >> 10) & 0b11 == (x >> 10) & 0b11,
        y & 0x4000 == x & 0x4000, (y >> 8) & 0b11 == (x >> 8) & 0b11,
        y & 0x1000 == x & 0x1000, y & 0b11 == x & 0b11,
        y & 0x0c00 == x & 0x0c00, y & 0x0300 == x & 0x0300, y != 0,
{}
proof fn lemma_dor_new(m: u8, y: u16) by (bit_vector)
    requires m <= 63, y == 0x2000u16 | ((0x3fu16 & m as u16) << 2u16)
    ensures y & 0x2000 == 0x2000, (y >> 2) & 0b111111 == m as u16,
        y & 0x8000 == 0, y & 0x4000 == 0, y & 0x1000 == 0,
        y & 0x0c00 == 0, y & 0x0300 == 0, y & 0x0003 == 0, y != 0,
{}
proof fn lemma_dor_none(x: u16, y: u16) by (bit_vector)
    requires y == x & !(0x2000u16 | 0x00fcu16)
    ensures y & 0x2000 == 0, y & 0x00fc == 0,
        y & 0x8000 == x & 0x8000, (y >> 10) & 0b11 == (x >> 10) & 0b11,
        y & 0x4000 == x & 0x4000, (y >> 8) & 0b11 == (x >> 8) & 0b11,
        y & 0x1000 == x & 0x1000, y & 0b11 == x & 0b11,
        y & 0x0c00 == x & 0x0c00, y & 0x0300 == x & 0x0300,
        (y == 0) == (x & 0xd000 == 0 && x & 0x0f03 == 0),
{}

proof fn lemma_phr_some(x: u16, m: u8, y: u16) by (bit_vector)
    requires m <= 3, y == ((x | 0x1000u16) & !0x03u16) | (m as u16)
    ensures y & 0x1000 == 0x1000, y & 0b11 == m as u16,
        y & 0x8000 == x & 0x8000, (y >> 10) & 0b11 == (x >> 10) & 0b11,
        y & 0x4000 == x & 0x4000, (y >> 8) & 0b11 == (x >> 8) & 0b11,
        y & 0x2000 == x & 0x2000, (y >> 2) & 0b111111 == (x >> 2) & 0b111111,
        y & 0x0c00 == x & 0x0c00, y & 0x0300 == x & 0x0300, y & 0x00fc == x & 0x00fc, y != 0,
{}
proof fn lemma_phr_new(m: u8, y: u16) by (bit_vector)
    requires m <= 3, y == 0x1000u16 | (0x03u16 & m as u16)
    ensures y & 0x1000 == 0x1000, y & 0b11 == m as u16,
        y & 0x8000 == 0, y & 0x4000 == 0, y & 0x2000 == 0,
        y & 0x0c00 == 0, y & 0x0300 == 0, y & 0x00fc == 0, y != 0,
{}
proof fn lemma_phr_none(x: u16, y: u16) by (bit_vector)
    requires y == x & !(0x1000u16 | 0x0003u16)
    ensures y & 0x1000 == 0, y & 0x0003 == 0,
        y & 0x8000 == x & 0x8000, (y >> 10) & 0b11 == (x >> 10) & 0b11,
        y & 0x4000 == x & 0x4000, (y >> 8) & 0b11 == (x >> 8) & 0b11,
        y & 0x2000 == x & 0x2000, (y >> 2) & 0b111111 == (x >> 2) & 0b111111,
        y & 0x0c00 == x & 0x0c00, y & 0x0300 == x & 0x0300, y & 0x00fc == x & 0x00fc,
        (y == 0) == (x & 0xe000 == 0 && x & 0x0ffc == 0),
{}

proof fn lemma_bit_tests(x: u16) by (bit_vector)
    ensures
        (x & 0x8000 == 0x8000) == (x & 0x8000 != 0), (x & 0x4000 == 0x4000) == (x & 0x4000 != 0),
        (x & 0x2000 == 0x2000) == (x & 0x2000 != 0), (x & 0x1000 == 0x1000) == (x & 0x1000 != 0),
        (x & 0x7000 == 0) == (x & 0x4000 == 0 && x & 0x2000 == 0 && x & 0x1000 == 0),
        (x & 0xb000 == 0) == (x & 0x8000 == 0 && x & 0x2000 == 0 && x & 0x1000 == 0),
        (x & 0xd000 == 0) == (x & 0x8000 == 0 && x & 0x4000 == 0 && x & 0x1000 == 0),
        (x & 0xe000 == 0) == (x & 0x8000 == 0 && x & 0x4000 == 0 && x & 0x2000 == 0),
        (x & 0x03ff == 0) == (x & 0x0300 == 0 && x & 0x00fc == 0 && x & 0x0003 == 0),
        (x & 0x0cff == 0) == (x & 0x0c00 == 0 && x & 0x00fc == 0 && x & 0x0003 == 0),
        (x & 0x0f03 == 0) == (x & 0x0c00 == 0 && x & 0x0300 == 0 && x & 0x0003 == 0),
        (x & 0x0ffc == 0) == (x & 0x0c00 == 0 && x & 0x0300 == 0 && x & 0x00fc == 0),
        (x & 0x8000 == 0 && x & 0x4000 == 0 && x & 0x2000 == 0 && x & 0x1000 == 0
            && x & 0x0c00 == 0 && x & 0x0300 == 0 && x & 0x00fc == 0 && x & 0x0003 == 0) ==> x == 0,
{}

// ---- C18 laws as lemmas over the contracts (the statement itself)
/// removing the last place sub-node makes the place absent
proof fn law_last_subnode_removed(p: Place)
    requires wf_place(p), lab_view(p).is_none(), cor_view(p).is_none(), dor_view(p).is_none(), phr_view(p).is_none()
    ensures /*#law_empty_place_is_absent C18,C08*/ raw(p).is_none()
{
    if let Some(x) = p.0 { lemma_bit_tests(x); }
}
/// a well-formed place is determined by its view (so whole-view postconditions pin the state)
proof fn law_view_determines_state(p: Place, q: Place)
    requires wf_place(p), wf_place(q), lab_view(p) == lab_view(q), cor_view(p) == cor_view(q), dor_view(p) == dor_view(q), phr_view(p) == phr_view(q)
    ensures /*#law_view_injective C18*/ raw(p) == raw(q)
{
    match (p.0, q.0) {
        (Some(x), Some(y)) => { lemma_view_inj(x, y); }
        (Some(x), None) => { lemma_bit_tests(x); }
        (None, Some(y)) => { lemma_bit_tests(y); }
        (None, None) => {}
    }
}
proof fn lemma_view_inj(x: u16, y: u16)
    requires wf_bits(x), wf_bits(y), lab_of(x) == lab_of(y), cor_of(x) == cor_of(y), dor_of(x) == dor_of(y), phr_of(x) == phr_of(y)
    ensures x == y
{
    lemma_bit_tests(x); lemma_bit_tests(y);
    assert(((x >> 10) & 0b11) as u8 == ((y >> 10) & 0b11) as u8 ==> (x >> 10) & 0b11 == (y >> 10) & 0b11) by {
        assert((x >> 10) & 0b11 <= 3 && (y >> 10) & 0b11 <= 3) by (bit_vector);
    }
    assert(((x >> 8) & 0b11) as u8 == ((y >> 8) & 0b11) as u8 ==> (x >> 8) & 0b11 == (y >> 8) & 0b11) by {
        assert((x >> 8) & 0b11 <= 3 && (y >> 8) & 0b11 <= 3) by (bit_vector);
    }
    assert(((x >> 2) & 0b111111) as u8 == ((y >> 2) & 0b111111) as u8 ==> (x >> 2) & 0b111111 == (y >> 2) & 0b111111) by {
        assert((x >> 2) & 0b111111 <= 63 && (y >> 2) & 0b111111 <= 63) by (bit_vector);
    }
    assert((x & 0b11) as u8 == (y & 0b11) as u8 ==> x & 0b11 == y & 0b11) by {
        assert(x & 0b11 <= 3 && y & 0b11 <= 3) by (bit_vector);
    }
    assert(x == y) by (bit_vector)
        requires
            x & 0x8000 == y & 0x8000, x & 0x4000 == y & 0x4000, x & 0x2000 == y & 0x2000, x & 0x1000 == y & 0x1000,
            (x & 0x8000 == 0x8000) ==> (x >> 10) & 0b11 == (y >> 10) & 0b11, (x & 0x8000 == 0) ==> (x & 0x0c00 == 0 && y & 0x0c00 == 0),
            (x & 0x4000 == 0x4000) ==> (x >> 8) & 0b11 == (y >> 8) & 0b11, (x & 0x4000 == 0) ==> (x & 0x0300 == 0 && y & 0x0300 == 0),
            (x & 0x2000 == 0x2000) ==> (x >> 2) & 0b111111 == (y >> 2) & 0b111111, (x & 0x2000 == 0) ==> (x & 0x00fc == 0 && y & 0x00fc == 0),
            (x & 0x1000 == 0x1000) ==> x & 0b11 == y & 0b11, (x & 0x1000 == 0) ==> (x & 0x0003 == 0 && y & 0x0003 == 0);
}
/// `None` is well formed and reads back as absent everywhere
proof fn law_none_is_empty()
    ensures /*#law_none_wf C18,C08*/ wf_place(Place(None)), lab_view(Place(None)).is_none(), cor_view(Place(None)).is_none(),
        dor_view(Place(None)).is_none(), phr_view(Place(None)).is_none()
{}

// ---- witnesses: every precondition is satisfiable and the calls are reachable
fn witness_place() {
    let mut p = Place(None);
    p.set_labial(Some(2));
    p.set_dorsal(Some(63));
    p.set_coronal(Some(1));
    p.set_pharyngeal(Some(3));
    let a = p.get_labial();
    assert(a == Some(2u8));
    let d = p.get_dorsal();
    assert(d == Some(63u8));
    p.set_labial(None); p.set_dorsal(None); p.set_coronal(None);
    let c = p.get_coronal();
    assert(c.is_none());
    let f = p.get_pharyngeal();
    assert(f == Some(3u8));
    p.set_pharyngeal(None);
    proof { law_last_subnode_removed(p); }
    let e = p.is_none();
    assert(e);
}
//@ end

// =================================================================== contracts

//@ contract Place::is_some ret=r
    ensures /*#is_some C18*/ r == raw(*self).is_some(),
//@ end
//@ contract Place::is_none ret=r
    ensures /*#is_none C18*/ r == raw(*self).is_none(),
//@ end

//@ contract Place::labial_is_some ret=r
    ensures /*#lab_is_some C18*/ r == lab_view(*self).is_some(),
//@ end
//@ contract Place::labial_is_none ret=r
    ensures /*#lab_is_none C18*/ r == lab_view(*self).is_none(),
//@ end
//@ contract Place::coronal_is_some ret=r
    ensures /*#cor_is_some C18*/ r == cor_view(*self).is_some(),
//@ end
//@ contract Place::coronal_is_none ret=r
    ensures /*#cor_is_none C18*/ r == cor_view(*self).is_none(),
//@ end
//@ contract Place::dorsal_is_some ret=r
    ensures /*#dor_is_some C18*/ r == dor_view(*self).is_some(),
//@ end
//@ contract Place::dorsal_is_none ret=r
    ensures /*#dor_is_none C18*/ r == dor_view(*self).is_none(),
//@ end
//@ contract Place::pharyngeal_is_some ret=r
    ensures /*#phr_is_some C18*/ r == phr_view(*self).is_some(),
//@ end
//@ contract Place::pharyngeal_is_none ret=r
    ensures /*#phr_is_none C18*/ r == phr_view(*self).is_none(),
//@ end

//@ contract Place::get_labial ret=r
    ensures /*#get_lab C18*/ r == lab_view(*self),
//@ end
//@ contract Place::get_coronal ret=r
    ensures /*#get_cor C18*/ r == cor_view(*self),
//@ end
//@ contract Place::get_dorsal ret=r
    ensures /*#get_dor C18*/ r == dor_view(*self),
//@ end
//@ contract Place::get_pharyngeal ret=r
    ensures /*#get_phr C18*/ r == phr_view(*self),
//@ end

//@ contract Place::set_labial
    requires /*#set_lab.in_range C18,C02*/ in2(mask),
    ensures
        /*#set_lab.get_after_set C18*/ lab_view(*final(self)) == mask,
        /*#set_lab.frame C18*/ cor_view(*final(self)) == cor_view(*old(self)) && dor_view(*final(self)) == dor_view(*old(self)) && phr_view(*final(self)) == phr_view(*old(self)),
        /*#set_lab.wf C18,C08*/ wf_place(*old(self)) ==> wf_place(*final(self)),
        /*#set_lab.no_empty_some C18,C08*/ raw(*final(self)) != Some(0u16),
//@ end
//@ proof_end Place::set_labial
    match (old(self).0, mask) {
        (Some(x), Some(m)) => { let y = ((x | 0x8000u16) & !0x0c00u16) | ((m as u16) << 10u16); lemma_lab_some(x, m, y); lemma_bit_tests(x); lemma_bit_tests(y); }
        (None, Some(m)) => { let y = 0x8000u16 | ((0x03u16 & m as u16) << 10u16); lemma_lab_new(m, y); lemma_bit_tests(y); }
        (Some(x), None) => { let y = x & !(0x8000u16 | 0x0c00u16); lemma_lab_none(x, y); lemma_bit_tests(x); lemma_bit_tests(y); }
        (None, None) => {}
    }
//@ end

//@ contract Place::set_coronal
    requires /*#set_cor.in_range C18,C02*/ in2(mask),
    ensures
        /*#set_cor.get_after_set C18*/ cor_view(*final(self)) == mask,
        /*#set_cor.frame C18*/ lab_view(*final(self)) == lab_view(*old(self)) && dor_view(*final(self)) == dor_view(*old(self)) && phr_view(*final(self)) == phr_view(*old(self)),
        /*#set_cor.wf C18,C08*/ wf_place(*old(self)) ==> wf_place(*final(self)),
        /*#set_cor.no_empty_some C18,C08*/ raw(*final(self)) != Some(0u16),
//@ end
//@ proof_end Place::set_coronal
    match (old(self).0, mask) {
        (Some(x), Some(m)) => { let y = ((x | 0x4000u16) & !0x0300u16) | ((m as u16) << 8u16); lemma_cor_some(x, m, y); lemma_bit_tests(x); lemma_bit_tests(y); }
        (None, Some(m)) => { let y = 0x4000u16 | ((0x03u16 & m as u16) << 8u16); lemma_cor_new(m, y); lemma_bit_tests(y); }
        (Some(x), None) => { let y = x & !(0x4000u16 | 0x0300u16); lemma_cor_none(x, y); lemma_bit_tests(x); lemma_bit_tests(y); }
        (None, None) => {}
    }
//@ end

//@ contract Place::set_dorsal
    requires /*#set_dor.in_range C18,C02*/ in6(mask),
    ensures
        /*#set_dor.get_after_set C18*/ dor_view(*final(self)) == mask,
        /*#set_dor.frame C18*/ lab_view(*final(self)) == lab_view(*old(self)) && cor_view(*final(self)) == cor_view(*old(self)) && phr_view(*final(self)) == phr_view(*old(self)),
        /*#set_dor.wf C18,C08*/ wf_place(*old(self)) ==> wf_place(*final(self)),
        /*#set_dor.no_empty_some C18,C08*/ raw(*final(self)) != Some(0u16),
//@ end
//@ proof_end Place::set_dorsal
    match (old(self).0, mask) {
        (Some(x), Some(m)) => { let y = ((x | 0x2000u16) & !0x00fcu16) | ((m as u16) << 2u16); lemma_dor_some(x, m, y); lemma_bit_tests(x); lemma_bit_tests(y); }
        (None, Some(m)) => { let y = 0x2000u16 | ((0x3fu16 & m as u16) << 2u16); lemma_dor_new(m, y); lemma_bit_tests(y); }
        (Some(x), None) => { let y = x & !(0x2000u16 | 0x00fcu16); lemma_dor_none(x, y); lemma_bit_tests(x); lemma_bit_tests(y); }
        (None, None) => {}
    }
//@ end

//@ contract Place::set_pharyngeal
    requires /*#set_phr.in_range C18,C02*/ in2(mask),
    ensures
        /*#set_phr.get_after_set C18*/ phr_view(*final(self)) == mask,
        /*#set_phr.frame C18*/ lab_view(*final(self)) == lab_view(*old(self)) && cor_view(*final(self)) == cor_view(*old(self)) && dor_view(*final(self)) == dor_view(*old(self)),
        /*#set_phr.wf C18,C08*/ wf_place(*old(self)) ==> wf_place(*final(self)),
        /*#set_phr.no_empty_some C18,C08*/ raw(*final(self)) != Some(0u16),
//@ end
//@ proof_end Place::set_pharyngeal
    match (old(self).0, mask) {
        (Some(x), Some(m)) => { let y = ((x | 0x1000u16) & !0x03u16) | (m as u16); lemma_phr_some(x, m, y); lemma_bit_tests(x); lemma_bit_tests(y); }
        (None, Some(m)) => { let y = 0x1000u16 | (0x03u16 & m as u16); lemma_phr_new(m, y); lemma_bit_tests(y); }
        (Some(x), None) => { let y = x & !(0x1000u16 | 0x0003u16); lemma_phr_none(x, y); lemma_bit_tests(x); lemma_bit_tests(y); }
        (None, None) => {}
    }
//@ end

//@ proof_start Place::labial_is_some
    assert(forall|a: u16, b: u16| #[trigger] (a & b) == b & a) by (bit_vector);
//@ end
//@ proof_start Place::coronal_is_some
    assert(forall|a: u16, b: u16| #[trigger] (a & b) == b & a) by (bit_vector);
//@ end
//@ proof_start Place::dorsal_is_some
    assert(forall|a: u16, b: u16| #[trigger] (a & b) == b & a) by (bit_vector);
//@ end
//@ proof_start Place::pharyngeal_is_some
    assert(forall|a: u16, b: u16| #[trigger] (a & b) == b & a) by (bit_vector);
//@ end
