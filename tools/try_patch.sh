#!/bin/sh
# tools/try_patch.sh <patch.diff> <Cxx> [tier]  -- apply a seeded change to /repo, run the check, undo.
set -u
P="$1"; C="$2"; T="${3:-quick}"
git -C /repo apply "$P" || { echo "patch does not apply"; exit 3; }
/verif/check "$C" --tier "$T"; rc=$?
git -C /repo checkout -- .
echo "exit=$rc"
exit $rc
