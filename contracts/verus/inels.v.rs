//@ kernel inels serves=C13,C02
//@ include specenv.v.rs
//@ item src/parser.rs impl Parser members=peek_expect,eat,eat_expect,get_word_bound,get_syll_bound,get_term,get_input_els
//@ stub Parser::get_term

//@ pre
//@ end
//@ post
/// same predicate as in kernel `follow`: cursor on a token of the list, `curr_tkn` is that token, the list ends with Eol
spec fn synced(p: Parser) -> bool {
    &&& p.pos < p.token_list@.len() && p.token_list@.len() < usize::MAX - 4
    &&& p.curr_tkn == p.token_list@[p.pos as int]
    &&& p.token_list@[p.token_list@.len() - 1].kind == TokenKind::Eol
}
//@ end
//@ contract Parser::peek_expect ret=r
    ensures r == (self.curr_tkn.kind == knd),
//@ end
//@ contract Parser::eat ret=r
    requires old(self).pos < usize::MAX - 1,
    ensures r == old(self).curr_tkn, advanced(*old(self), *final(self)),
//@ end
//@ proof_start Parser::eat
    axiom_token_clone();
//@ end
//@ contract Parser::eat_expect ret=r
    requires old(self).pos < usize::MAX - 1,
    ensures (old(self).curr_tkn.kind == knd) ==> (r == Some(old(self).curr_tkn) && advanced(*old(self), *final(self))),
        !(old(self).curr_tkn.kind == knd) ==> (r is None && *final(self) == *old(self)),
//@ end
//@ contract Parser::get_word_bound ret=r
    requires old(self).pos < usize::MAX - 1,
    ensures (old(self).curr_tkn.kind == TokenKind::WordBoundary) ==> (r is Some && advanced(*old(self), *final(self))),
        !(old(self).curr_tkn.kind == TokenKind::WordBoundary) ==> (r is None && *final(self) == *old(self)),
//@ end
//@ contract Parser::get_syll_bound ret=r
    requires old(self).pos < usize::MAX - 1,
    ensures (old(self).curr_tkn.kind == TokenKind::SyllBoundary) ==> (r is Some && advanced(*old(self), *final(self))),
        !(old(self).curr_tkn.kind == TokenKind::SyllBoundary) ==> (r is None && *final(self) == *old(self)),
//@ end
//@ contract Parser::get_term ret=r
    ensures
        // ASSUMED about the opaque term parser: it moves the cursor with advance() only and only over real tokens
        (r is Ok && synced(*old(self))) ==> synced(*final(self)),
        final(self).token_list == old(self).token_list,
        // ASSUMED: a term parser that finds nothing has consumed nothing (the sub-parsers backtrack)
        r matches Ok(None) ==> *final(self) == *old(self),
        // ASSUMED (read off the code: these three are constructed in get_input / rule only)
        r matches Err(e) ==> !(e is InsertErr) && !(e is ExpectedEndLine) && !(e is ExpectedArrow),
//@ end
//@ attr Parser::get_input_els
#[verifier::exec_allows_no_decreases_clause]
//@ end
//@ contract Parser::get_input_els ret=r
    requires synced(*old(self)),
    ensures
        // these are exactly the clauses the `follow` kernel ASSUMES of its opaque get_input_els
        /*#inels.cursor_stays_in_step_with_the_list C13,C02*/ r is Ok ==> synced(*final(self)),
        /*#inels.token_list_untouched C13,C02*/ final(self).token_list == old(self).token_list,
        /*#inels.rule_level_errors_are_not_raised_below C13*/ r matches Err(e) ==> !(e is InsertErr) && !(e is ExpectedEndLine) && !(e is ExpectedArrow),
        /*#inels.no_element_means_nothing_consumed C02*/ r matches Ok(v) && v@.len() == 0 ==> *final(self) == *old(self),
//@ end
//@ loop Parser::get_input_els 0
    invariant synced(*self), self.token_list == old(self).token_list, els@.len() == 0 ==> *self == *old(self),
    ensures synced(*self), els@.len() == 0 ==> *self == *old(self),
//@ end
