// ---- K1: Place.  Views written from the documented bit layout (src/place.rs:5-16).
pub(crate) fn v_lab(p: &Place) -> Option<u8> { match p.0 { Some(x) if x & 0x8000 != 0 => Some(((x >> 10) & 0b11) as u8), _ => None } }
pub(crate) fn v_cor(p: &Place) -> Option<u8> { match p.0 { Some(x) if x & 0x4000 != 0 => Some(((x >> 8) & 0b11) as u8), _ => None } }
pub(crate) fn v_dor(p: &Place) -> Option<u8> { match p.0 { Some(x) if x & 0x2000 != 0 => Some(((x >> 2) & 0b111111) as u8), _ => None } }
pub(crate) fn v_phr(p: &Place) -> Option<u8> { match p.0 { Some(x) if x & 0x1000 != 0 => Some((x & 0b11) as u8), _ => None } }

/// no payload bits under an absent sub-node; an empty place is `None`
pub(crate) fn wf_place(p: &Place) -> bool {
    match p.0 {
        None => true,
        Some(x) => x != 0
            && (x & 0x8000 != 0 || x & 0x0c00 == 0)
            && (x & 0x4000 != 0 || x & 0x0300 == 0)
            && (x & 0x2000 != 0 || x & 0x00fc == 0)
            && (x & 0x1000 != 0 || x & 0x0003 == 0),
    }
}
pub(crate) fn in2(m: Option<u8>) -> bool { match m { Some(v) => v <= 3, None => true } }
pub(crate) fn in6(m: Option<u8>) -> bool { match m { Some(v) => v <= 63, None => true } }

/// whole-view postcondition of `set_<node k>(m)`: k = 0 lab, 1 cor, 2 dor, 3 phr
pub(crate) fn post_set(old: Place, new: &Place, k: u8, m: Option<u8>) -> bool {
    let ov = [v_lab(&old), v_cor(&old), v_dor(&old), v_phr(&old)];
    let nv = [v_lab(new), v_cor(new), v_dor(new), v_phr(new)];
    let mut ok = true;
    let mut i = 0;
    while i < 4 {
        if i == k as usize { ok = ok && nv[i] == m } else { ok = ok && nv[i] == ov[i] }
        i += 1;
    }
    ok && (!wf_place(&old) || wf_place(new)) && new.0 != Some(0)
}

pub(crate) fn any_place() -> Place { Place(kani::any()) }

//% props=C18,C08 tier=thorough kind=P form=contract twin=k1_set_all_plain covers=set_lab.* pair=Place::set_labial
#[kani::proof_for_contract(Place::set_labial)]
#[kani::unwind(5)]
fn k1_set_labial() { let mut p = any_place(); let m: Option<u8> = kani::any(); p.set_labial(m); }

//% props=C18,C08 tier=thorough kind=P form=contract twin=k1_set_all_plain covers=set_cor.* pair=Place::set_coronal
#[kani::proof_for_contract(Place::set_coronal)]
#[kani::unwind(5)]
fn k1_set_coronal() { let mut p = any_place(); let m: Option<u8> = kani::any(); p.set_coronal(m); }

//% props=C18,C08 tier=thorough kind=P form=contract twin=k1_set_all_plain covers=set_dor.* pair=Place::set_dorsal
#[kani::proof_for_contract(Place::set_dorsal)]
#[kani::unwind(5)]
fn k1_set_dorsal() { let mut p = any_place(); let m: Option<u8> = kani::any(); p.set_dorsal(m); }

//% props=C18,C08 tier=thorough kind=P form=contract twin=k1_set_all_plain covers=set_phr.* pair=Place::set_pharyngeal
#[kani::proof_for_contract(Place::set_pharyngeal)]
#[kani::unwind(5)]
fn k1_set_pharyngeal() { let mut p = any_place(); let m: Option<u8> = kani::any(); p.set_pharyngeal(m); }

//% props=C18 tier=quick kind=P covers=get_lab,get_cor,get_dor,get_phr,*_is_some,*_is_none,is_some,is_none pair=Place::get_labial,Place::get_coronal,Place::get_dorsal,Place::get_pharyngeal,Place::is_some,Place::is_none,Place::labial_is_some,Place::coronal_is_some,Place::dorsal_is_some,Place::pharyngeal_is_some,Place::labial_is_none,Place::coronal_is_none,Place::dorsal_is_none,Place::pharyngeal_is_none
/// all read accessors against the view, for every one of the 2^16+1 place values (loop-free: complete)
#[kani::proof]
#[kani::unwind(5)]
fn k1_getters() {
    let p = any_place();
    assert!(p.is_some() == p.0.is_some());
    assert!(p.is_none() == p.0.is_none());
    assert!(p.get_labial() == v_lab(&p));
    assert!(p.get_coronal() == v_cor(&p));
    assert!(p.get_dorsal() == v_dor(&p));
    assert!(p.get_pharyngeal() == v_phr(&p));
    assert!(p.labial_is_some() == v_lab(&p).is_some() && p.labial_is_none() == v_lab(&p).is_none());
    assert!(p.coronal_is_some() == v_cor(&p).is_some() && p.coronal_is_none() == v_cor(&p).is_none());
    assert!(p.dorsal_is_some() == v_dor(&p).is_some() && p.dorsal_is_none() == v_dor(&p).is_none());
    assert!(p.pharyngeal_is_some() == v_phr(&p).is_some() && p.pharyngeal_is_none() == v_phr(&p).is_none());
}

//% props=C18,C08 tier=quick kind=P covers=law_empty_place_is_absent,law_view_injective,law_none_wf
/// C18 laws over the views: an empty well-formed place is absent; views determine a wf place
#[kani::proof]
#[kani::unwind(5)]
fn k1_laws() {
    let p = any_place();
    let q = any_place();
    if wf_place(&p) && v_lab(&p).is_none() && v_cor(&p).is_none() && v_dor(&p).is_none() && v_phr(&p).is_none() {
        assert!(p.0.is_none());
    }
    if wf_place(&p) && wf_place(&q) && v_lab(&p) == v_lab(&q) && v_cor(&p) == v_cor(&q) && v_dor(&p) == v_dor(&q) && v_phr(&p) == v_phr(&q) {
        assert!(p.0 == q.0);
    }
    kani::cover!(wf_place(&p) && p.0.is_some());
}

impl Place { pub(crate) fn raw_for_verif(&self) -> Option<u16> { self.0 } }

/// the four setter contracts in plain (assume / call / assert) form: same predicates as the
/// injected #[kani::requires]/#[kani::ensures]; loop-free apart from the fixed 4-trip loop => complete.
/// Replayable natively.
//% props=C18,C08 tier=quick kind=P covers=set_lab.*,set_cor.*,set_dor.*,set_phr.* pair=Place::set_labial,Place::set_coronal,Place::set_dorsal,Place::set_pharyngeal
#[kani::proof]
#[kani::unwind(5)]
fn k1_set_all_plain() {
    let old = any_place();
    let m: Option<u8> = kani::any();
    let k: u8 = kani::any();
    kani::assume(k < 4);
    kani::assume(if k == 2 { in6(m) } else { in2(m) });
    let mut p = old;
    match k { 0 => p.set_labial(m), 1 => p.set_coronal(m), 2 => p.set_dorsal(m), _ => p.set_pharyngeal(m) }
    assert!(post_set(old, &p, k, m), "set_<sub-node>: get-after-set, frame, wf preserved, never Some(0)");
    kani::cover!(wf_place(&old) && m.is_none() && p.0.is_none() && old.0.is_some());
}
