// ---- helpers to build Words / Syllables in harnesses (Word has a private field)
pub(crate) fn mk_syll(segs: &[Segment], stress: StressKind, tone: u16) -> Syllable {
    let mut s = Syllable::new();
    let mut i = 0;
    while i < segs.len() { s.segments.push_back(segs[i]); i += 1; }
    s.stress = stress;
    s.tone = tone;
    s
}
pub(crate) fn mk_word(sylls: Vec<Syllable>) -> Word { Word { syllables: sylls, americanist: false } }
pub(crate) fn any_stress() -> StressKind {
    let k: u8 = kani::any();
    kani::assume(k < 3);
    match k { 0 => StressKind::Primary, 1 => StressKind::Secondary, _ => StressKind::Unstressed }
}

// vacuity canary for the Kani side: this assertion is false and MUST be reported as failing
// (thorough tier; if it ever "proves", the pipeline is not checking anything -> undecided)
//% props=C02,C03,C04,C05,C07,C08,C10,C12,C13,C14,C18 tier=thorough kind=P expect=fail clause="canary: must fail"
#[kani::proof]
#[kani::unwind(2)]
fn k0_canary_must_fail() {
    let x: u8 = kani::any();
    assert!(x != 77, "canary");
}
