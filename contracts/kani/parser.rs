// ---- K4: ModKind::as_bool -- proves, on the real body, the contract the Verus kernel `supras` assumes for it
use crate::seg::verif_kani::{any_alpha_value, alpha_truth, new_alphas, pos0};

pub(crate) fn any_supra_slot() -> Option<ModKind> {
    let k: u8 = kani::any();
    kani::assume(k < 5);
    match k {
        0 => None,
        1 => Some(ModKind::Binary(BinMod::Positive)),
        2 => Some(ModKind::Binary(BinMod::Negative)),
        3 => Some(ModKind::Alpha(AlphaMod::Alpha('α'))),
        _ => Some(ModKind::Alpha(AlphaMod::InvAlpha('α'))),
    }
}
/// spec: truth of a slot under a table in which 'α' is bound to `a` (None = slot absent; Some(None) = unbound alpha)
pub(crate) fn slot_truth(m: &Option<ModKind>, a: &Option<Alpha>) -> Option<Option<bool>> {
    match m {
        None => None,
        Some(ModKind::Binary(b)) => Some(Some(*b == BinMod::Positive)),
        Some(ModKind::Alpha(AlphaMod::Alpha(_))) => Some(a.as_ref().map(alpha_truth)),
        Some(ModKind::Alpha(AlphaMod::InvAlpha(_))) => Some(a.as_ref().map(|x| !alpha_truth(x))),
    }
}
pub(crate) fn any_binding() -> (RefCell<HashMap<char, Alpha>>, Option<Alpha>) {
    let al = new_alphas();
    if kani::any() {
        let a = any_alpha_value();
        al.borrow_mut().insert('α', a.clone());
        (al, Some(a))
    } else { (al, None) }
}

//% props=C05,C07 tier=quick kind=P covers=as_bool.assumed pair=ModKind::as_bool,Alpha::as_binary clause="as_bool == mk_truth: binary -> its polarity; alpha -> the bound truth value (node alphas coerced by is_some); -alpha -> inverse; unbound -> AlphaUnknown"
#[kani::proof]
#[kani::unwind(5)]
fn k4_as_bool() {
    let m = any_supra_slot();
    let (al, a) = any_binding();
    if let Some(mk) = m {
        let r = mk.as_bool(&al, pos0());
        match slot_truth(&m, &a).unwrap() {
            Some(t) => assert!(matches!(r, Ok(b) if b == t), "as_bool returns the carried truth value"),
            None => assert!(matches!(r, Err(RuleRuntimeError::AlphaUnknown(_))), "unbound alpha is AlphaUnknown"),
        }
    }
    if let Some(x) = &a { assert!(x.as_binary() == alpha_truth(x), "Alpha::as_binary coercion as documented"); }
}

// ---- C10 / C06 clause: blank and comment-only lines yield no rule
pub(crate) fn tok(kind: TokenKind, start: usize) -> Token {
    Token { kind, value: Rc::from(""), position: Position::new(kani::any(), kani::any(), start, start + 1) }
}

//% props=C10 tier=quick kind=P pair=Parser::parse,Parser::new clause="a token list starting with Eol (blank line) parses to Ok(None): no rule is produced"
#[kani::proof]
#[kani::unwind(4)]
fn k10_parse_blank() {
    let r = Parser::new(vec![tok(TokenKind::Eol, 0)], kani::any(), kani::any()).parse();
    assert!(matches!(r, Ok(None)), "blank line -> no rule");
}

//% props=C10 tier=thorough kind=P timeout=1800 pair=Parser::parse,Parser::new clause="a token list starting with Comment parses to Ok(None): no rule is produced"
#[kani::proof]
#[kani::unwind(4)]
fn k10_parse_comment() {
    let r2 = Parser::new(vec![tok(TokenKind::Comment, 0), tok(TokenKind::Eol, 1)], kani::any(), kani::any()).parse();
    assert!(matches!(r2, Ok(None)), "comment-only line -> no rule");
}

// ---- C02: the one numeric-literal conversion that can be called without going through the parser
//% props=C02 tier=thorough kind=B bound="Number tokens of exactly 20 decimal digits (usize::MAX has 20 digits)" timeout=2400 mem=24 pair=Parser::get_var_assign clause="converting a variable number written by the user must not panic"
#[kani::proof]
#[kani::unwind(22)]
fn k2c_get_var_assign_20_digits() {
    let d: [u8; 20] = kani::any();
    let mut i = 0;
    while i < 20 { kani::assume(d[i] >= b'0' && d[i] <= b'9'); i += 1; }
    let s = unsafe { core::str::from_utf8_unchecked(&d) };
    let number = Token { kind: TokenKind::Number, value: Rc::from(s), position: pos0() };
    let chr = Item::new(ParseElement::Matrix(Modifiers::new(), None), pos0());
    let mut p = Parser::new(vec![tok(TokenKind::Eol, 0)], 0, 0);
    let it = p.get_var_assign(number, &chr);
    assert!(matches!(it.kind, ParseElement::Matrix(_, Some(_))));
}
