//@ kernel specenv serves=C12,C02
//@ include condensed.v.rs
//@ item src/lexer.rs impl Position members=new
//@ item src/parser.rs impl Item members=new
//@ item src/parser.rs struct Parser
//@ item src/parser.rs impl Parser members=has_more_tokens,advance,expect,get_env_elements,get_spec_env

//@ stub Parser::get_env_elements

//@ pre
//@ end
//@ post
// derive(PartialEq) on the field-less enum TokenKind is structural (trusted; discharged by the Kani derive-eq harness family)
pub assume_specification[ <TokenKind as PartialEq>::eq ](a: &TokenKind, b: &TokenKind) -> (r: bool)
    ensures r == (*a == *b);
/// derive(Clone) on Token returns an equal token -- ASSUMED (no postcondition on derive expansions)
#[verifier::external_body]
proof fn axiom_token_clone()
    ensures forall|a: Token, b: Token| #[trigger] cloned(a, b) ==> a == b,
        forall|a: &Token, b: Token| #[trigger] call_ensures(<Token as Clone>::clone, (a,), b) ==> *a == b,
{}
/// what `advance` does to the parser: cursor one further; the current token is the one under the cursor, or a synthetic
/// end-of-line token when the list is exhausted or the token just left was a comment
spec fn advanced(a: Parser, b: Parser) -> bool {
    &&& b.pos == a.pos + 1 && b.token_list == a.token_list && b.group == a.group && b.line == a.line
    &&& (a.pos + 1 < a.token_list@.len() && a.curr_tkn.kind != TokenKind::Comment) ==> b.curr_tkn == a.token_list@[a.pos + 1]
    &&& !(a.pos + 1 < a.token_list@.len() && a.curr_tkn.kind != TokenKind::Comment) ==> (b.curr_tkn.kind == TokenKind::Eol
            && b.curr_tkn.position == (Position { group: a.group, line: a.line, start: (a.pos + 1) as usize, end: (a.pos + 2) as usize }))
}
/// `_ , X` means the two environments `X _` and `_ X'` where X' is X mirrored (manual: "_,X" shorthand)
spec fn mirror_pair(v: Seq<Item>, x: Seq<Item>, pos: Position) -> bool {
    &&& v.len() == 2 && v[0].position == pos && v[1].position == pos
    &&& v[0].kind matches ParseElement::Environment(e0) && e0@.len() == 1 && e0@[0].position == pos
            && e0@[0].before@ =~= x && e0@[0].after@.len() == 0
    &&& v[1].kind matches ParseElement::Environment(e1) && e1@.len() == 1 && e1@[0].position == pos
            && e1@[0].before@.len() == 0 && e1@[0].after@ =~= x.reverse()
}
/// the rest of the environment grammar is opaque: an arbitrary function of the parser state
pub uninterp spec fn elems_spec(p: Parser, is_after: bool) -> (Result<Vec<Item>, RuleSyntaxError>, Parser);
//@ end
//@ contract Parser::get_env_elements ret=r
    ensures (r, *final(self)) == elems_spec(*old(self), is_after),
        // ASSUMED about the opaque callee: it leaves the cursor inside the token list and does not move it backwards
        r is Ok ==> 1 <= final(self).pos <= final(self).token_list@.len() && final(self).pos < usize::MAX - 2,
        // ASSUMED frame: it only moves the cursor
        final(self).token_list == old(self).token_list && final(self).group == old(self).group && final(self).line == old(self).line,
        // ASSUMED: it moves the cursor with advance() only, so past the list the current token is the synthetic end of line
        r is Ok ==> (final(self).pos < final(self).token_list@.len() || final(self).curr_tkn.kind == TokenKind::Eol),
        // ASSUMED (read off the code: ExpectedArrow / ExpectedEndLine are constructed in Parser::rule only)
        r matches Err(e) ==> !(e is ExpectedEndLine) && !(e is ExpectedArrow),
//@ end

//@ contract Position::new ret=r
    ensures r == (Position { group, line, start, end }),
//@ end
//@ contract Item::new ret=r
    ensures r == (Item { kind: k, position: p }),
//@ end
//@ contract Parser::has_more_tokens ret=r
    ensures r == (self.pos < self.token_list@.len()),
//@ end
//@ contract Parser::advance
    requires old(self).pos < usize::MAX - 1,
    ensures /*#specenv.advance C12*/ advanced(*old(self), *final(self)),
//@ end
//@ proof_start Parser::advance
    axiom_token_clone();
//@ end
//@ contract Parser::expect ret=r
    requires old(self).pos < usize::MAX - 1,
    ensures r == (old(self).curr_tkn.kind == knd),
        r ==> advanced(*old(self), *final(self)),
        !r ==> *final(self) == *old(self),
//@ end
//@ contract Parser::get_spec_env ret=r
    requires 1 <= old(self).pos < usize::MAX - 3,
    ensures
        /*#specenv.underscore_comma_is_the_mirrored_pair C12*/ r matches Ok(Some(v)) ==> (
            old(self).curr_tkn.kind == TokenKind::Underline
            && exists|p2: Parser| p2.pos == old(self).pos + 2 && p2.token_list == old(self).token_list
                && (#[trigger] elems_spec(p2, false)).0 is Ok && elems_spec(p2, false).1 == *final(self)
                && final(self).curr_tkn.kind != TokenKind::Underline
                && mirror_pair(v@, elems_spec(p2, false).0->Ok_0@, Position { group: old(self).group, line: old(self).line,
                        start: old(self).curr_tkn.position.start, end: final(self).token_list@[final(self).pos - 1].position.end })),
        /*#specenv.no_shorthand_restores_the_cursor C12*/ r matches Ok(None) ==> (
            final(self).pos == old(self).pos && final(self).token_list == old(self).token_list),
        /*#specenv.element_errors_are_returned C12*/ r matches Err(e) ==> (
            exists|p2: Parser| p2.pos == old(self).pos + 2 && (#[trigger] elems_spec(p2, false)).0 == Err::<Vec<Item>, RuleSyntaxError>(e)),
        // frame and cursor facts the environment-list parser (kernel envlist) builds on
        final(self).token_list == old(self).token_list && final(self).group == old(self).group && final(self).line == old(self).line,
        (r is Ok && old(self).pos <= old(self).token_list@.len() && (old(self).pos < old(self).token_list@.len() || old(self).curr_tkn.kind == TokenKind::Eol))
            ==> (final(self).pos <= final(self).token_list@.len() && (final(self).pos < final(self).token_list@.len() || final(self).curr_tkn.kind == TokenKind::Eol)),
        r matches Err(e) ==> !(e is ExpectedEndLine) && !(e is ExpectedArrow),
//@ end
