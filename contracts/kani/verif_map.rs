//! Loop-free association list standing in for `std::collections::HashMap`, used ONLY in
//! Kani builds of the scratch copy (see /verif/DESIGN.md 2.2).  hashbrown's probing and
//! `RandomState::new` (getrandom) cannot be executed symbolically by CBMC, and any loop here
//! would be unwound at every (even unreachable) call site.  Capacity is 4 bindings, enough for
//! every harness; exceeding it fails the check "verif_map capacity exceeded", which the driver
//! reports as undecided, never as a violation.
//! Same signatures as the methods the crate uses on its binding tables; the crate never
//! iterates these maps, so ordering is unobservable.
#[derive(Debug, Clone)]
pub(crate) struct HashMap<K, V> {
    e0: Option<(K, V)>,
    e1: Option<(K, V)>,
    e2: Option<(K, V)>,
    e3: Option<(K, V)>,
}

impl<K: PartialEq, V> HashMap<K, V> {
    pub(crate) fn new() -> Self { Self { e0: None, e1: None, e2: None, e3: None } }

    pub(crate) fn get(&self, k: &K) -> Option<&V> {
        if let Some((a, v)) = &self.e0 { if *a == *k { return Some(v) } }
        if let Some((a, v)) = &self.e1 { if *a == *k { return Some(v) } }
        if let Some((a, v)) = &self.e2 { if *a == *k { return Some(v) } }
        if let Some((a, v)) = &self.e3 { if *a == *k { return Some(v) } }
        None
    }

    pub(crate) fn insert(&mut self, k: K, v: V) -> Option<V> {
        if let Some((a, old)) = &mut self.e0 { if *a == k { return Some(core::mem::replace(old, v)) } }
        if let Some((a, old)) = &mut self.e1 { if *a == k { return Some(core::mem::replace(old, v)) } }
        if let Some((a, old)) = &mut self.e2 { if *a == k { return Some(core::mem::replace(old, v)) } }
        if let Some((a, old)) = &mut self.e3 { if *a == k { return Some(core::mem::replace(old, v)) } }
        if self.e0.is_none() { self.e0 = Some((k, v)); return None }
        if self.e1.is_none() { self.e1 = Some((k, v)); return None }
        if self.e2.is_none() { self.e2 = Some((k, v)); return None }
        if self.e3.is_none() { self.e3 = Some((k, v)); return None }
        panic!("verif_map capacity exceeded");
    }

    #[allow(unused)]
    pub(crate) fn contains_key(&self, k: &K) -> bool { self.get(k).is_some() }
    #[allow(unused)]
    pub(crate) fn clear(&mut self) { self.e0 = None; self.e1 = None; self.e2 = None; self.e3 = None; }
    #[allow(unused)]
    pub(crate) fn len(&self) -> usize {
        self.e0.is_some() as usize + self.e1.is_some() as usize + self.e2.is_some() as usize + self.e3.is_some() as usize
    }
    #[allow(unused)]
    pub(crate) fn is_empty(&self) -> bool { self.len() == 0 }
}
