"""Per-property configuration of the check driver (what is run, what is assumed, what is glue)."""

STANDING_TRUST = [
    'rustc 1.98.1 front end as used by Verus; Verus 0.2026.09.13 VC generation; Z3 as shipped with Verus',
    'vstd specifications of Vec, VecDeque, Option, slices, integer operators',
    'Kani 0.68.0 / CBMC 6.11.0 / CaDiCaL for the Kani harnesses',
    '/verif/engine/extract.py rewrite rules R1-R5 (self-checked byte-for-byte against /repo on every run)',
]
STANDING_ASSUMPTIONS = [
    'Option::unwrap_unchecked(o) requires o.is_some() and returns the payload (its documented safety contract; assume_specification)',
    'derive(PartialEq) on the field-less enum NodeKind is structural equality (assume_specification for NodeKind::eq)',
    'machine integers are machine integers in both tools: overflow is an obligation, not assumed away',
    'Kani builds: std::collections::HashMap<char|usize,_> in rule/subrule/seg/syll/parser/word.rs is replaced by the association list contracts/kani/verif_map.rs (finite map under new/get/insert/clear/clone; the crate never iterates these maps)',
    'inputs satisfy the stated type invariants (wf(Place), wf(Segment), in-range node values); values reachable only through DerefMut/serde that violate them are outside every contract',
]

PROPS = {
    'C18': dict(
        level='proof',
        kernels=['segment'],
        trusted_base=[],
        assumptions=['only in-range sub-node values are specified (mask <= 3 / <= 63): `(m as u16) << off` spills into presence bits otherwise, and the property quantifies over values in range'],
        glue=[],
        level_text='Proof for all inputs: every get/set/match law of Place and Segment is a postcondition (or a law function verified against those postconditions) on the real accessor code, discharged by Verus/Z3 with bit-vector lemmas, and independently by complete (loop-free, full-domain) Kani harnesses over all 2^16+1 place values x all root/manner/laryngeal bytes, which also supply replayable counterexamples.',
        level_note='Trusted: Verus/Z3, Kani/CBMC, the extractor rewrite rules R1-R5 (self-checked). Assumed: Option::unwrap_unchecked safety contract; derive(PartialEq) on NodeKind is structural. Only in-range sub-node values (<=3 / <=63) are specified, as in the property text.',
        technique='contract-based deductive verification (Verus requires/ensures on extracted real functions + complete Kani/CBMC harnesses with native counterexample replay)',
        design_ref='DESIGN.md section 6 / C18',
        explanation='get/set/match laws of Place and Segment as postconditions of the real accessor functions (Verus, bit-vector lemmas) and as complete loop-free Kani harnesses over all 2^16+1 places x all bytes',
    ),
}

SOURCE_COMMITS = []
NOT_APPLICABLE = {}
