//@ kernel insexc serves=C02,C03
//@ include specenv.v.rs
//@ item src/word.rs struct SegPos
//@ item src/word.rs impl SegPos members=new,at_word_start,at_syll_start,reversed,at_word_end,increment
//@ item src/word.rs impl Word members=in_bounds,out_of_bounds,reverse,get_seg_at,seg_length_at
//@ item src/subrule.rs type SylPos
//@ item src/subrule.rs type BndPos
//@ item src/subrule.rs type SetInd
//@ item src/subrule.rs enum MatchElement
//@ item src/subrule.rs impl SubRule members=get_contexts,get_exceptions,insertion_after,insertion_before,insertion_between,insertion_match,match_ipa_with_modifiers,input_match_ipa,input_match_syll_bound,input_match_item,input_match_var,input_match_matrix,input_match_set,input_match_syll,input_match_structure,input_match_ellipsis,match_before_env,match_after_env,insertion_match_exceptions,context_match,context_match_ipa,context_match_matrix,context_match_syll,context_match_structure,context_match_var,context_match_set,context_match_option,context_match_ellipsis
//@ stub SegPos::reversed
//@ stub SegPos::at_word_end
//@ stub SegPos::increment
//@ stub Word::in_bounds
//@ stub Word::out_of_bounds
//@ stub Word::reverse
//@ stub Word::get_seg_at
//@ stub Word::seg_length_at
//@ stub SubRule::match_ipa_with_modifiers
//@ stub SubRule::input_match_var
//@ stub SubRule::input_match_matrix
//@ stub SubRule::input_match_set
//@ stub SubRule::input_match_syll
//@ stub SubRule::input_match_structure
//@ stub SubRule::input_match_ellipsis
//@ stub SubRule::get_contexts
//@ stub SubRule::get_exceptions
//@ stub SubRule::insertion_after
//@ stub SubRule::insertion_before
//@ stub SubRule::insertion_between
//@ stub SubRule::match_before_env
//@ stub SubRule::match_after_env
//@ stub SubRule::context_match_matrix
//@ stub SubRule::context_match_syll
//@ stub SubRule::context_match_structure
//@ stub SubRule::context_match_var
//@ stub SubRule::context_match_set
//@ stub SubRule::context_match_option
//@ stub SubRule::context_match_ellipsis

//@ pre
// ---- interpreter functions that do not touch the RefCell binding tables, with the word opaque (as in the
// condensed kernel) and positions REAL (SegPos is two indices).  What needs the word's contents is an R6 stub whose
// contract is the one proved for the real function in the `positions` kernel.
pub uninterp spec fn pos_in_bounds(w: Word, p: SegPos) -> bool;      // Word::in_bounds
pub uninterp spec fn prev(p: SegPos, w: Word) -> SegPos;             // SegPos::reversed
pub uninterp spec fn pinc(p: SegPos, w: Word) -> SegPos;             // SegPos::increment
pub uninterp spec fn wrev(w: Word) -> Word;                          // Word::reverse
pub uninterp spec fn at_end(p: SegPos, w: Word) -> bool;             // SegPos::at_word_end
pub uninterp spec fn bef_spec(sr: SubRule, states: Seq<Item>, w: Word, p: SegPos, ins: bool, is_context: bool) -> Result<bool, RuleRuntimeError>;
pub uninterp spec fn aft_spec(sr: SubRule, states: Seq<Item>, w: Word, p: SegPos, ins: bool, inc: bool, is_context: bool) -> Result<bool, RuleRuntimeError>;
pub uninterp spec fn seg_at(w: Word, p: SegPos) -> Segment;               // Word::get_seg_at on an in-bounds position
pub uninterp spec fn seglen(w: Word, p: SegPos) -> int;                  // Word::seg_length_at (run of identical segments)
pub uninterp spec fn mods_spec(sr: SubRule, s: Segment, m: Modifiers, w: Word, p: SegPos) -> Result<bool, RuleRuntimeError>;
// derive(PartialEq) on Segment is structural (trusted; discharged by the Kani derive-eq harness)
pub assume_specification[ <Segment as PartialEq>::eq ](a: &Segment, b: &Segment) -> (r: bool)
    ensures r == (*a == *b);
// trusted std contract: slice::reverse
pub assume_specification<T>[ <[T]>::reverse ](s: &mut [T])
    ensures final(s)@ == old(s)@.reverse();
//@ end
//@ post
// `==` on ParseElement (its derive list is dropped in the condensed kernel): structural -- ASSUMED
impl PartialEq for ParseElement {
    #[verifier::external_body]
    fn eq(&self, other: &Self) -> (r: bool) ensures r == (*self == *other) { unimplemented!() }
}
/// a literal in an environment: nothing matches outside the word; inside, the bare segment must be equal, or the
/// modifier matcher decides
pub open spec fn ipa_spec(sr: SubRule, s: Segment, mods: Option<Modifiers>, w: Word, p: SegPos) -> Result<bool, RuleRuntimeError> {
    if !pos_in_bounds(w, p) { Ok(false) } else {
        match mods { Some(m) => mods_spec(sr, s, m, w, p), None => Ok(s == seg_at(w, p)) }
    }
}
/// n steps of SegPos::increment
pub open spec fn pinc_n(p: SegPos, w: Word, n: int) -> SegPos
    decreases n
{
    if n <= 0 { p } else { pinc(pinc_n(p, w, n - 1), w) }
}
/// the kinds an environment element can have (the parser never puts `*`, `&` or a nested environment there)
pub open spec fn env_element_kind(k: ParseElement) -> bool {
    !(k is EmptySet) && !(k is Metathesis) && !(k is Environment)
}
//@ end

// ---- stubs: contracts as proved for the real functions in the `positions` kernel
//@ contract SegPos::reversed ret=r
    requires /*#reversed.needs_an_in_bounds_position C02*/ pos_in_bounds(*word, *self),
    ensures r == prev(*self, *word),
//@ end
//@ contract SegPos::at_word_end ret=r
    ensures r == at_end(*self, *word),
//@ end
//@ contract SegPos::increment
    ensures *final(self) == pinc(*old(self), *word),
//@ end
//@ contract Word::in_bounds ret=r
    ensures r == pos_in_bounds(*self, seg_pos),
//@ end
//@ contract Word::out_of_bounds ret=r
    ensures r == !pos_in_bounds(*self, seg_pos),
//@ end
//@ contract Word::reverse ret=r
    ensures r == wrev(*self),
//@ end
//@ contract SegPos::new ret=r
    ensures r == (SegPos { syll_index, seg_index }),
//@ end
//@ contract SegPos::at_word_start ret=r
    ensures r == (self.syll_index == 0 && self.seg_index == 0),
//@ end
//@ contract SegPos::at_syll_start ret=r
    ensures r == (self.seg_index == 0),
//@ end

// =================================================================== insertion_match_exceptions
//@ contract SubRule::get_exceptions ret=r
    ensures self.except is None ==> r@.len() == 0,
//@ end
//@ contract SubRule::match_before_env ret=r
    ensures r == bef_spec(*self, states@, *word_rev, *pos, ins_match_before, is_context),
//@ end
//@ contract SubRule::match_after_env ret=r
    ensures r == aft_spec(*self, states@, *word, *pos, ins_match_before, inc, is_context),
//@ end
//@ contract SubRule::insertion_match_exceptions ret=r
    // NO precondition on ins_pos: an insertion point may lie one past the end of a syllable (the function itself
    // has an "edge case for when insertion position is out of bounds")
    ensures /*#insexc.no_exception_means_not_excepted C02*/ self.except is None ==> r == Ok::<bool, RuleRuntimeError>(false),
//@ end

// =================================================================== context_match: the boundary arms and the literal arm
//@ contract SubRule::context_match_ipa ret=r
    ensures /*#context_literal.outside_the_word_nothing_matches C03*/ r == ipa_spec(*self, *s, *mods, *word, pos),
//@ end
//@ contract SubRule::context_match ret=r
    requires *old(state_index) < states@.len(), env_element_kind(states@[*old(state_index) as int].kind),
    ensures
        /*#context_match.word_boundary_is_the_out_of_bounds_test C03*/ states@[*old(state_index) as int].kind is WordBound ==> (
            r == Ok::<bool, RuleRuntimeError>(!pos_in_bounds(*word, *old(pos))) && *final(pos) == *old(pos) && *final(state_index) == *old(state_index)),
        /*#context_match.syll_boundary_is_segment_index_zero C03*/ states@[*old(state_index) as int].kind is SyllBound ==> (
            r == Ok::<bool, RuleRuntimeError>(old(pos).seg_index == 0 && !(ins_match_before && old(pos).syll_index == 0))
            && *final(pos) == *old(pos) && *final(state_index) == *old(state_index)),
        /*#context_match.literal_consumes_one_position_iff_matched C03*/ states@[*old(state_index) as int].kind matches ParseElement::Ipa(s, m) ==> (
            *final(state_index) == *old(state_index)
            && (match ipa_spec(*self, s, m, *word, *old(pos)) {
                    Ok(true) => r == Ok::<bool, RuleRuntimeError>(true) && *final(pos) == pinc(*old(pos), *word),
                    Ok(false) => r == Ok::<bool, RuleRuntimeError>(false) && *final(pos) == *old(pos),
                    Err(e) => r == Err::<bool, RuleRuntimeError>(e) && *final(pos) == *old(pos),
                })),
//@ end

// =================================================================== insertion_match (where an insertion rule inserts)
//@ contract SubRule::get_contexts ret=r
    ensures self.context is None ==> r@.len() == 0,
//@ end
// R6 stubs WITH the precondition their bodies need (insertion_after indexes `states[0]`; insertion_before passes index 0 to
// context_match, unwraps `states.first()` and computes `states.len() - 1`)
//@ contract SubRule::insertion_after ret=r
    requires /*#insertion_after.needs_a_nonempty_context_half C02*/ states@.len() > 0,
//@ end
//@ contract SubRule::insertion_before ret=r
    requires /*#insertion_before.needs_a_nonempty_context_half C02*/ states@.len() > 0,
//@ end
//@ contract SubRule::insertion_between ret=r
    requires /*#insertion_between.needs_two_nonempty_context_halves C02*/ bef_states@.len() > 0 && aft_states@.len() > 0,
//@ end
//@ contract SubRule::insertion_match ret=r
    // the parser never yields a rule without output elements (EmptyOutput) -- precondition, unchecked at the call site
    requires self.output@.len() > 0,
    ensures
        /*#insertion_match.no_environment_is_an_error C02*/ (self.context is None && self.except is None) ==> r is Err,
//@ end

// =================================================================== input side: a literal, a syllable boundary
//@ contract Word::get_seg_at ret=r
    ensures r == (if pos_in_bounds(*self, seg_pos) { Some(seg_at(*self, seg_pos)) } else { None::<Segment> }),
//@ end
//@ contract Word::seg_length_at ret=r
    // proved for the real function in the `positions` / `supras` kernels: the run has at least the segment itself
    ensures r as int == seglen(*self, seg_index), r >= 1,
//@ end
//@ contract SubRule::match_ipa_with_modifiers ret=r
    ensures r == mods_spec(*self, *seg, *mods, *word, *pos),
//@ end
//@ attr SubRule::input_match_ipa
#[verifier::loop_isolation(false)]
//@ end
//@ contract SubRule::input_match_ipa ret=r
    requires pos_in_bounds(*word, *old(pos)),
    ensures
        /*#input_literal.captures_the_position_iff_it_matched C03*/ r matches Ok(b) ==> (
            b == (match *mods { None => *s == seg_at(*word, *old(pos)), Some(m) => mods_spec(*self, *s, m, *word, *old(pos)) == Ok::<bool, RuleRuntimeError>(true) })
            && final(captures)@ == (if b { old(captures)@.push(MatchElement::Segment(*old(pos), None)) } else { old(captures)@ })),
        /*#input_literal.steps_over_the_rest_of_a_long_segment C03*/ r is Ok ==> (*final(pos) == pinc_n(*old(pos), *word, seglen(*word, *old(pos)) - 1) && seglen(*word, *old(pos)) >= 1),
        r matches Err(e) ==> (*mods matches Some(m) && mods_spec(*self, *s, m, *word, *old(pos)) == Err::<bool, RuleRuntimeError>(e)),
//@ end
//@ loop_each_ghost_before SubRule::input_match_ipa while seg_length > (\d+)
    let ghost p_in = *pos;
    let ghost n_in = seg_length as int;
//@ end
//@ loop_each SubRule::input_match_ipa while seg_length > (\d+)
    invariant
        1 <= seg_length <= n_in, *pos == pinc_n(p_in, *word, n_in - seg_length),
    decreases seg_length,
//@ end
//@ contract SubRule::input_match_syll_bound ret=r
    ensures /*#input_boundary.matches_at_segment_index_zero C03*/ r == (pos.seg_index == 0),
        final(captures)@ == (if r { old(captures)@.push(MatchElement::SyllBound(pos.syll_index, None)) } else { old(captures)@ }),
//@ end

// =================================================================== input_match_item: one element of the rule's input
//@ post
/// the kinds an input element can have
pub open spec fn input_element_kind(k: ParseElement) -> bool {
    !(k is Optional) && !(k is Environment) && !(k is EmptySet) && !(k is WordBound) && !(k is Metathesis)
}
//@ end
//@ contract SubRule::input_match_var ret=r
    ensures *final(state_index) < usize::MAX,     // ASSUMED about the opaque matcher: the state index stays an index
//@ end
//@ contract SubRule::input_match_set ret=r
    ensures *final(state_index) < usize::MAX,     // ASSUMED, as above
//@ end
//@ contract SubRule::input_match_item ret=r
    requires *old(state_index) < states@.len(), input_element_kind(states@[*old(state_index) as int].kind),
        // a literal is only tried on a position inside the word (input_match_at stops at the end of the word) -- unchecked at the call site
        states@[*old(state_index) as int].kind is Ipa ==> pos_in_bounds(*word, *old(seg_pos)),
    ensures
        /*#input_item.boundary_matches_at_index_zero_and_consumes_nothing C03*/ states@[*old(state_index) as int].kind is SyllBound ==> (
            r == Ok::<bool, RuleRuntimeError>(old(seg_pos).seg_index == 0) && *final(seg_pos) == *old(seg_pos)
            && *final(state_index) == *old(state_index) + (if old(seg_pos).seg_index == 0 { 1int } else { 0int })
            && final(captures)@ == (if old(seg_pos).seg_index == 0 { old(captures)@.push(MatchElement::SyllBound(old(seg_pos).syll_index, None)) } else { old(captures)@ })),
        /*#input_item.literal_consumes_the_whole_long_segment_iff_matched C03*/ states@[*old(state_index) as int].kind is Ipa ==> (r matches Ok(b) ==> (
            *final(state_index) == *old(state_index) + (if b { 1int } else { 0int })
            && *final(seg_pos) == pinc_n(*old(seg_pos), *word, seglen(*word, *old(seg_pos)) - 1 + (if b { 1int } else { 0int }))
            && final(captures)@ == (if b { old(captures)@.push(MatchElement::Segment(*old(seg_pos), None)) } else { old(captures)@ }))),
//@ end
