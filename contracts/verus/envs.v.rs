//@ kernel envs serves=C03
//@ item src/subrule.rs impl SubRule members=match_contexts_and_exceptions

//@ pre
// ---- R6: everything the combination logic calls is opaque; each environment half is an arbitrary
// function of exactly the arguments the code passes.
#[verifier::external_body]
pub struct Item { _o: u8 }
#[verifier::external_body]
pub struct Word { _o: u8 }
#[verifier::external_body]
pub struct SubRule { _o: u8 }
#[verifier::external_body]
pub struct RuleRuntimeError { _o: u8 }
#[derive(Clone, Copy)]
#[verifier::external_body]
pub struct SegPos { _o: u8 }

pub uninterp spec fn ctx_of(sr: SubRule) -> Seq<(Seq<Item>, Seq<Item>)>;
pub uninterp spec fn exc_of(sr: SubRule) -> Seq<(Seq<Item>, Seq<Item>)>;
pub uninterp spec fn wrev(w: Word) -> Word;
pub uninterp spec fn prev(p: SegPos, w: Word) -> SegPos;
pub uninterp spec fn before_spec(sr: SubRule, states: Seq<Item>, word_rev: Word, pos: SegPos, ins: bool, is_context: bool) -> Result<bool, RuleRuntimeError>;
pub uninterp spec fn after_spec(sr: SubRule, states: Seq<Item>, word: Word, pos: SegPos, ins: bool, inc: bool, is_context: bool) -> Result<bool, RuleRuntimeError>;
pub open spec fn pairs_view(v: Seq<(&Vec<Item>, &Vec<Item>)>) -> Seq<(Seq<Item>, Seq<Item>)> {
    Seq::new(v.len(), |i: int| ((*v[i].0)@, (*v[i].1)@))
}

impl Clone for Item {
    #[verifier::external_body]
    fn clone(&self) -> (r: Self) ensures r == *self { unimplemented!() }
}
// trusted std contract: slice::reverse
pub assume_specification<T>[ <[T]>::reverse ](s: &mut [T])
    ensures final(s)@ == old(s)@.reverse();

impl Word {
    #[verifier::external_body]
    pub(crate) fn reverse(&self) -> (r: Self) ensures r == wrev(*self) { unimplemented!() }
}
impl SegPos {
    #[verifier::external_body]
    pub(crate) fn reversed(&self, word: &Word) -> (r: Self) ensures r == prev(*self, *word) { unimplemented!() }
}
impl SubRule {
    #[verifier::external_body]
    fn get_contexts(&self) -> (r: Vec<(&Vec<Item>, &Vec<Item>)>) ensures pairs_view(r@) == ctx_of(*self) { unimplemented!() }
    #[verifier::external_body]
    fn get_exceptions(&self) -> (r: Vec<(&Vec<Item>, &Vec<Item>)>) ensures pairs_view(r@) == exc_of(*self) { unimplemented!() }
    #[verifier::external_body]
    fn match_before_env(&self, states: &[Item], word_rev: &Word, pos: &SegPos, ins_match_before: bool, is_context: bool) -> (r: Result<bool, RuleRuntimeError>)
        ensures r == before_spec(*self, states@, *word_rev, *pos, ins_match_before, is_context)
    { unimplemented!() }
    #[verifier::external_body]
    fn match_after_env(&self, states: &[Item], word: &Word, pos: &SegPos, ins_match_before: bool, inc: bool, is_context: bool) -> (r: Result<bool, RuleRuntimeError>)
        ensures r == after_spec(*self, states@, *word, *pos, ins_match_before, inc, is_context)
    { unimplemented!() }
}
//@ end

//@ post
/// one `before _ after` environment: an empty half always matches; the before half is matched reversed, on the reversed word, from the mirrored start position
pub open spec fn env_res(sr: SubRule, e: (Seq<Item>, Seq<Item>), w: Word, sp: SegPos, ep: SegPos, inc: bool, is_context: bool) -> Result<bool, RuleRuntimeError> {
    let b = if e.0.len() == 0 { Ok(true) } else { before_spec(sr, e.0.reverse(), wrev(w), prev(sp, w), false, is_context) };
    match b {
        Ok(true) => if e.1.len() == 0 { Ok(true) } else { after_spec(sr, e.1, w, ep, false, inc, is_context) },
        Ok(false) => Ok(false),
        Err(x) => Err(x),
    }
}
/// does any of environments k.. match (first error wins, nothing after the first match is evaluated)
pub open spec fn any_env(sr: SubRule, es: Seq<(Seq<Item>, Seq<Item>)>, k: int, w: Word, sp: SegPos, ep: SegPos, inc: bool, is_context: bool) -> Result<bool, RuleRuntimeError>
    decreases es.len() - k
{
    if k < 0 || k >= es.len() { Ok(false) } else {
        match env_res(sr, es[k], w, sp, ep, inc, is_context) {
            Ok(true) => Ok(true),
            Ok(false) => any_env(sr, es, k + 1, w, sp, ep, inc, is_context),
            Err(x) => Err(x),
        }
    }
}
/// the position is a match site iff some context environment matches (or there is none) and NO exception environment matches
pub open spec fn combine(sr: SubRule, w: Word, sp: SegPos, ep: SegPos, inc: bool) -> Result<bool, RuleRuntimeError> {
    let c = if ctx_of(sr).len() == 0 { Ok(true) } else { any_env(sr, ctx_of(sr), 0, w, sp, ep, inc, true) };
    match c {
        Err(x) => Err(x),
        Ok(cm) => match any_env(sr, exc_of(sr), 0, w, sp, ep, inc, false) {
            Err(x) => Err(x),
            Ok(xm) => Ok(cm && !xm),
        },
    }
}
//@ end

//@ attr SubRule::match_contexts_and_exceptions
#[verifier::loop_isolation(false)]
//@ end
//@ contract SubRule::match_contexts_and_exceptions ret=r
    ensures /*#envs.context_and_not_exception C03*/ r == combine(*self, *word, start_pos, end_pos, inc),
//@ end
// Loops with `break`: the function runs with loop_isolation(false), where a `break` simply continues after the loop with
// the state at the break and a normal exit knows the invariant plus "iterator exhausted".  (`ensures` on a `for` loop is
// silently IGNORED by this Verus in that mode -- neither checked nor assumed -- so none is written; what holds after each
// loop is asserted explicitly, after the loop.)
//@ loop_ghost_before SubRule::match_contexts_and_exceptions 0
    let ghost cs = contexts@;
    let ghost xs = exceptions@;
//@ end
//@ loop SubRule::match_contexts_and_exceptions 0 iter=it0
    invariant_except_break
        it0.seq() == cs, pairs_view(cs) == ctx_of(*self), pairs_view(xs) == exc_of(*self), xs == exceptions@,
        word_rev == wrev(*word), !is_expt_match,
        cs.len() > 0 ==> !is_cont_match, cs.len() == 0 ==> is_cont_match,
        /*#envs.inv.no_context_matched_so_far C03*/ any_env(*self, ctx_of(*self), 0, *word, start_pos, end_pos, inc, true) == any_env(*self, ctx_of(*self), it0.index@, *word, start_pos, end_pos, inc, true),
//@ end
//@ loop_ghost_before SubRule::match_contexts_and_exceptions 1
    assert(cs.len() == 0 ==> is_cont_match);
    assert(/*#envs.contexts_scanned C03*/ cs.len() > 0 ==> any_env(*self, ctx_of(*self), 0, *word, start_pos, end_pos, inc, true) == Ok::<bool, RuleRuntimeError>(is_cont_match));
//@ end
//@ loop SubRule::match_contexts_and_exceptions 1 iter=it1
    invariant_except_break
        it1.seq() == xs, !is_expt_match,
        /*#envs.inv.no_exception_matched_so_far C03*/ any_env(*self, exc_of(*self), 0, *word, start_pos, end_pos, inc, false) == any_env(*self, exc_of(*self), it1.index@, *word, start_pos, end_pos, inc, false),
//@ end
//@ proof_before_tail SubRule::match_contexts_and_exceptions
    assert(/*#envs.exceptions_scanned C03*/ any_env(*self, exc_of(*self), 0, *word, start_pos, end_pos, inc, false) == Ok::<bool, RuleRuntimeError>(is_expt_match));
    assert(ctx_of(*self).len() == cs.len());
//@ end
