#!/usr/bin/env python3
"""Regenerate /verif/MANIFEST.json from engine/props.py (single source of truth)."""
import json, os, sys
sys.path.insert(0, '/verif/engine')
import props as P
ids = [json.loads(l)['id'] for l in open('/verif/properties.jsonl')]
checks = []
for pid in ids:
    if pid not in P.PROPS:
        continue
    c = P.PROPS[pid]
    checks.append(dict(
        property_id=pid,
        quick_cmd='./check %s --tier quick' % pid,
        thorough_cmd='./check %s --tier thorough' % pid,
        evidence_file='evidence/%s.json' % pid,
        replay_cmd_template='./check %s --replay {path}' % pid,
        engine='contracts',
        level_claimed=dict(category=c['level'], text=c['level_text'], design_ref=c.get('design_ref', 'DESIGN.md section 6')),
        level_note=c['level_note'],
        technique=c['technique'],
    ))
na = [dict(property_id=pid, reason=P.NOT_APPLICABLE.get(pid, 'check not built yet (DESIGN.md section 0 gives the planned verdict)')) for pid in ids if pid not in P.PROPS]
m = dict(
    version=1,
    setup_cmd='sh tools/setup.sh',
    hooks=dict(guard='kani', enable='no source hooks: Verus reads /repo/src as text; Kani harnesses and #[cfg_attr(kani, kani::requires/ensures/modifies)] contract lines are added to a scratch copy of /repo (cfg(kani) is set by cargo kani)',
               baseline_off_cmd='cd /repo && cargo test --workspace --no-fail-fast --offline', source_commits=P.SOURCE_COMMITS, add_only=True),
    engines=[dict(name='contracts', path='engine/driver.py', serves_properties=sorted(P.PROPS),
                  kind_free_text='contract-based deductive verification of the real code: Verus (requires/ensures/invariants spliced onto functions extracted verbatim from /repo on every run) + Kani/CBMC (function contracts and complete loop-free harnesses on an annotated scratch copy of the whole crate; native replay of counterexamples)')],
    checks=checks,
    notes='Genuine defect repaired in /repo (unguarded fix commit): ' + '; '.join(P.FIX_COMMITS) + '. Genuine defects recorded, not repaired (known_findings.json, printed as KNOWN-FINDING lines, exit 0): C07 stress alpha turns secondary into primary; C02 20-digit number overflows usize in the parser; C02 insertion rule with a before-exception panics (SegPos::reversed on an insertion point outside the word). Every check rebuilds from /repo working tree. exit 0 ok / 1 VIOLATION / 2 undecided (lost anchor, tool limit) - never an alarm. See DESIGN.md.',
    not_applicable=na,
)
json.dump(m, open('/verif/MANIFEST.json', 'w'), indent=1)
print('MANIFEST: %d checks, %d not applicable' % (len(checks), len(na)))
