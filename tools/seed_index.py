#!/usr/bin/env python3
"""Write /verif/seeded/INDEX.md from seeded/*/meta.json: which check catches which seeded change."""
import glob
import json
import os

rows = []
for d in sorted(glob.glob('/verif/seeded/*/')):
    mp = os.path.join(d, 'meta.json')
    if not os.path.exists(mp):
        continue
    m = json.load(open(mp))
    name = os.path.basename(d.rstrip('/'))
    runs = m.get('check_runs', [])
    last = {}
    for r in runs:
        last[(r['check'], r['tier'])] = r   # latest run per (check, tier) wins
    verdicts = []
    for (c, t), r in sorted(last.items()):
        v = {0: 'not detected (exit 0)', 1: 'DETECTED', 2: 'undecided (exit 2)'}.get(r['exit'], 'exit %s' % r['exit'])
        what = ''
        for l in r.get('lines', []):
            if l.startswith('VIOLATION'):
                what = l.split('replay=')[-1].split('/')[-1].replace('.json', '')
                if 'no-failing-input-found' in l:
                    what = what.replace(' no-failing-input-found', '') + ' (no-failing-input-found)'
                break
            if l.startswith('UNDECIDED') and not what:
                what = l[len('UNDECIDED property=%s: ' % c):][:110]
        verdicts.append('%s/%s: %s%s' % (c, t, v, (' -- ' + what) if what else ''))
    rows.append((name, m.get('property'), m.get('summary', '').replace('\n', ' ')[:230], m.get('needs_to_manifest', '').replace('\n', ' ')[:200],
                 '; '.join(m.get('files', [])), '<br>'.join(verdicts) or 'not run', m.get('note', '')))
with open('/verif/seeded/INDEX.md', 'w') as f:
    f.write('# Seeded changes: independently written breaking changes and what the checks say\n\n')
    f.write('Each change was written by a fresh sub-agent that saw only the property text and a scratch worktree; each was re-confirmed here\n'
            '(patch applies, 144/144 tests still pass, demonstration fails with the change and passes without) before being kept.\n'
            '`DETECTED` = the registered check exits 1 with a VIOLATION line while the change is applied to /repo.\n\n')
    f.write('| seed | property | change | needs to manifest | files | verdict of the check(s) | note |\n|---|---|---|---|---|---|---|\n')
    for r in rows:
        f.write('| ' + ' | '.join(str(x).replace('|', '\\|') for x in r) + ' |\n')
    n = len(rows)
    det = sum(1 for r in rows if 'DETECTED' in r[5])
    f.write('\n%d seeded changes, %d detected by at least one registered check.\n' % (n, det))
print('INDEX.md: %d seeds' % len(rows))

# ---- behaviour-preserving refactorings (false-alarm test)
rrows = []
for d in sorted(glob.glob('/verif/seeded/refactors/*/')):
    mp = os.path.join(d, 'meta.json')
    if not os.path.exists(mp):
        continue
    m = json.load(open(mp))
    name = os.path.basename(d.rstrip('/'))
    last = {}
    for r in m.get('check_runs', []):
        last[r['check']] = r
    v = '; '.join('%s: exit %d' % (c, r['exit']) for c, r in sorted(last.items()))
    worst = max([r['exit'] if r['exit'] != 2 else 0.5 for r in last.values()] or [0])
    rrows.append((name, m.get('summary', '').replace('\n', ' ')[:260], ', '.join(m.get('functions', []))[:160] if isinstance(m.get('functions'), list) else '', v,
                  'FALSE ALARM' if worst == 1 else ('undecided' if worst == 0.5 else 'still decided (exit 0)'), m.get('note', '')))
with open('/verif/seeded/refactors/INDEX.md', 'w') as f:
    f.write('# Behaviour-preserving refactorings (false-alarm test)\n\nWritten by fresh sub-agents asked to tidy code WITHOUT changing behaviour; each applied to a copy of /repo HEAD and the covering checks run.\n'
            'exit 0 = still decided, exit 2 = undecided (proof script no longer fits the text; not an alarm), exit 1 = false alarm.  Latest run per check is shown.\n\n')
    f.write('| refactoring | what | functions | checks | outcome | note |\n|---|---|---|---|---|---|\n')
    for r in rrows:
        f.write('| ' + ' | '.join(str(x).replace('|', '\\|') for x in r) + ' |\n')
    f.write('\n%d refactorings: %d still decided, %d undecided, %d false alarms (latest runs).\n' % (len(rrows), sum(1 for r in rrows if r[4].startswith('still')), sum(1 for r in rrows if r[4] == 'undecided'), sum(1 for r in rrows if r[4] == 'FALSE ALARM')))
print('refactors INDEX: %d' % len(rrows))
