//@ kernel segment serves=C18,C04,C08,C02
//@ include place.v.rs
//@ item src/seg.rs enum NodeKind
//@ item src/seg.rs impl NodeKind members=count,from_usize
//@ item src/lexer.rs enum FType
//@ item src/lexer.rs impl FType members=count,from_usize,to_node_mask
//@ item src/seg.rs struct Segment
//@ item src/seg.rs impl Segment members=get_node,get_place_node,get_place_sub_nodes,set_node,get_feat,set_feat,is_node_some,is_node_none,is_place_some,is_place_none,feat_match,node_match

//@ post
// `#[derive(PartialEq)]` on the field-less enum NodeKind is structural equality (it
// lacks `Eq`, so Verus does not infer this itself).  Trusted, listed as an assumption.
pub assume_specification[ <NodeKind as PartialEq>::eq ](a: &NodeKind, b: &NodeKind) -> (r: bool)
    ensures r == (*a == *b);
// ------------------------------------------------------------------
// Abstract view of a Segment: three bytes + the four place sub-nodes.
// Feature -> (node, bit) table written from the documentation
// (src/seg.rs:113-116 and src/place.rs:13-16), most significant bit first:
//   root      [consonantal, sonorant, syllabic]                      bits 2..0
//   manner    [continuant, approx, lateral, nasal, del.rel., strident, rhotic, click]  bits 7..0
//   laryngeal [voice, s.g., c.g.]                                    bits 2..0
//   labial [labiodental, round]  coronal [anterior, distributed]    bits 1..0
//   dorsal [front, back, high, low, tense, reduced]                  bits 5..0
//   pharyngeal [atr, rtr]                                            bits 1..0
// ------------------------------------------------------------------
pub open spec fn nk_index(n: NodeKind) -> int {
    match n { NodeKind::Root => 0, NodeKind::Manner => 1, NodeKind::Laryngeal => 2, NodeKind::Place => 3,
              NodeKind::Labial => 4, NodeKind::Coronal => 5, NodeKind::Dorsal => 6, NodeKind::Pharyngeal => 7 }
}
pub(crate) closed spec fn ft_index(f: FType) -> int {
    match f {
        FType::Consonantal => 0, FType::Sonorant => 1, FType::Syllabic => 2,
        FType::Continuant => 3, FType::Approximant => 4, FType::Lateral => 5, FType::Nasal => 6,
        FType::DelayedRelease => 7, FType::Strident => 8, FType::Rhotic => 9, FType::Click => 10,
        FType::Voice => 11, FType::SpreadGlottis => 12, FType::ConstrGlottis => 13,
        FType::Labiodental => 14, FType::Round => 15, FType::Anterior => 16, FType::Distributed => 17,
        FType::Front => 18, FType::Back => 19, FType::High => 20, FType::Low => 21, FType::Tense => 22, FType::Reduced => 23,
        FType::AdvancedTongueRoot => 24, FType::RetractedTongueRoot => 25,
    }
}
/// documented (node, mask) of feature number i (order of the manual's feature list)
pub open spec fn mask_table(i: int) -> (NodeKind, u8) {
    if i == 0 { (NodeKind::Root, 0b100u8) } else if i == 1 { (NodeKind::Root, 0b010u8) } else if i == 2 { (NodeKind::Root, 0b001u8) }
    else if i == 3 { (NodeKind::Manner, 0b1000_0000u8) } else if i == 4 { (NodeKind::Manner, 0b0100_0000u8) }
    else if i == 5 { (NodeKind::Manner, 0b0010_0000u8) } else if i == 6 { (NodeKind::Manner, 0b0001_0000u8) }
    else if i == 7 { (NodeKind::Manner, 0b0000_1000u8) } else if i == 8 { (NodeKind::Manner, 0b0000_0100u8) }
    else if i == 9 { (NodeKind::Manner, 0b0000_0010u8) } else if i == 10 { (NodeKind::Manner, 0b0000_0001u8) }
    else if i == 11 { (NodeKind::Laryngeal, 0b100u8) } else if i == 12 { (NodeKind::Laryngeal, 0b010u8) } else if i == 13 { (NodeKind::Laryngeal, 0b001u8) }
    else if i == 14 { (NodeKind::Labial, 0b10u8) } else if i == 15 { (NodeKind::Labial, 0b01u8) }
    else if i == 16 { (NodeKind::Coronal, 0b10u8) } else if i == 17 { (NodeKind::Coronal, 0b01u8) }
    else if i == 18 { (NodeKind::Dorsal, 0b100000u8) } else if i == 19 { (NodeKind::Dorsal, 0b010000u8) }
    else if i == 20 { (NodeKind::Dorsal, 0b001000u8) } else if i == 21 { (NodeKind::Dorsal, 0b000100u8) }
    else if i == 22 { (NodeKind::Dorsal, 0b000010u8) } else if i == 23 { (NodeKind::Dorsal, 0b000001u8) }
    else if i == 24 { (NodeKind::Pharyngeal, 0b10u8) } else { (NodeKind::Pharyngeal, 0b01u8) }
}
/// all bits a node can hold
pub open spec fn node_width(n: NodeKind) -> u8 {
    match n { NodeKind::Root => 0b111u8, NodeKind::Manner => 0xffu8, NodeKind::Laryngeal => 0b111u8, NodeKind::Place => 0u8,
              NodeKind::Labial => 0b11u8, NodeKind::Coronal => 0b11u8, NodeKind::Dorsal => 0b111111u8, NodeKind::Pharyngeal => 0b11u8 }
}
pub open spec fn seg_node(s: Segment, n: NodeKind) -> Option<u8> {
    match n {
        NodeKind::Root => Some(s.root), NodeKind::Manner => Some(s.manner), NodeKind::Laryngeal => Some(s.laryngeal),
        NodeKind::Labial => lab_view(s.place), NodeKind::Coronal => cor_view(s.place),
        NodeKind::Dorsal => dor_view(s.place), NodeKind::Pharyngeal => phr_view(s.place),
        NodeKind::Place => None,
    }
}
pub open spec fn wf_seg(s: Segment) -> bool { s.root <= 7 && s.laryngeal <= 7 && wf_place(s.place) }
pub open spec fn is_major(n: NodeKind) -> bool { n is Root || n is Manner || n is Laryngeal }
/// value acceptable to set_node (keeps payload inside the node's field)
pub open spec fn node_val_ok(n: NodeKind, v: Option<u8>) -> bool {
    &&& !(n is Place)
    &&& (is_major(n) ==> v.is_some())
    &&& (n is Labial || n is Coronal || n is Pharyngeal ==> in2(v))
    &&& (n is Dorsal ==> in6(v))
}
pub open spec fn feat_ok(n: NodeKind, feat: u8) -> bool { !(n is Place) && feat & !node_width(n) == 0 }
pub open spec fn unwrap_or0(o: Option<u8>) -> u8 { match o { Some(v) => v, None => 0u8 } }

proof fn lemma_view_ranges(p: Place)
    ensures lab_view(p) matches Some(v) ==> v <= 3, cor_view(p) matches Some(v) ==> v <= 3,
            dor_view(p) matches Some(v) ==> v <= 63, phr_view(p) matches Some(v) ==> v <= 3,
{
    if let Some(x) = p.0 {
        assert((x >> 10) & 0b11 <= 3 && (x >> 8) & 0b11 <= 3 && (x >> 2) & 0b111111 <= 63 && x & 0b11 <= 3) by (bit_vector);
    }
}
proof fn lemma_u8_masks()
    ensures
        forall|a: u8, b: u8| a <= 3 && b & !0b11u8 == 0 ==> #[trigger] (a | b) <= 3,
        forall|a: u8, b: u8| a <= 63 && b & !0b111111u8 == 0 ==> #[trigger] (a | b) <= 63,
        forall|a: u8, b: u8| a <= 7 && b & !0b111u8 == 0 ==> #[trigger] (a | b) <= 7,
        forall|a: u8, b: u8| #[trigger] (a & !b) <= a,
        forall|b: u8| #[trigger] (0u8 | b) == b,
        forall|a: u8, b: u8| (#[trigger] (a | b)) & b == b,
        forall|a: u8, b: u8| (#[trigger] (a & !b)) & b == 0,
{
    assert(forall|a: u8, b: u8| a <= 3 && b & !0b11u8 == 0 ==> #[trigger] (a | b) <= 3) by (bit_vector);
    assert(forall|a: u8, b: u8| a <= 63 && b & !0b111111u8 == 0 ==> #[trigger] (a | b) <= 63) by (bit_vector);
    assert(forall|a: u8, b: u8| a <= 7 && b & !0b111u8 == 0 ==> #[trigger] (a | b) <= 7) by (bit_vector);
    assert(forall|a: u8, b: u8| #[trigger] (a & !b) <= a) by (bit_vector);
    assert(forall|b: u8| #[trigger] (0u8 | b) == b) by (bit_vector);
    assert(forall|a: u8, b: u8| (#[trigger] (a | b)) & b == b) by (bit_vector);
    assert(forall|a: u8, b: u8| (#[trigger] (a & !b)) & b == 0) by (bit_vector);
}

/// T (C04/C18): the feature table is a partition of each node's bits into single features
proof fn law_mask_table()
    ensures
        /*#mask_table.single_bits C04,C18*/
        forall|i: int| 0 <= i < 26 ==> ({ let m = #[trigger] mask_table(i).1;
            m == 1 || m == 2 || m == 4 || m == 8 || m == 16 || m == 32 || m == 64 || m == 128 }),
        /*#mask_table.inside_node C04,C18*/
        forall|i: int| 0 <= i < 26 ==> feat_ok(#[trigger] mask_table(i).0, mask_table(i).1),
        /*#mask_table.disjoint C04,C18*/
        forall|i: int, j: int| 0 <= i < j < 26 && mask_table(i).0 == mask_table(j).0 ==> mask_table(i).1 & mask_table(j).1 == 0,
        /*#mask_table.cover C04,C18*/
        mask_table(0).1 | mask_table(1).1 | mask_table(2).1 == node_width(NodeKind::Root),
        mask_table(3).1 | mask_table(4).1 | mask_table(5).1 | mask_table(6).1 | mask_table(7).1 | mask_table(8).1 | mask_table(9).1 | mask_table(10).1 == node_width(NodeKind::Manner),
        mask_table(11).1 | mask_table(12).1 | mask_table(13).1 == node_width(NodeKind::Laryngeal),
        mask_table(14).1 | mask_table(15).1 == node_width(NodeKind::Labial),
        mask_table(16).1 | mask_table(17).1 == node_width(NodeKind::Coronal),
        mask_table(18).1 | mask_table(19).1 | mask_table(20).1 | mask_table(21).1 | mask_table(22).1 | mask_table(23).1 == node_width(NodeKind::Dorsal),
        mask_table(24).1 | mask_table(25).1 == node_width(NodeKind::Pharyngeal),
{
    assert(forall|m: u8| (m == 1 || m == 2 || m == 4) ==> #[trigger] (m & !0b111u8) == 0) by (bit_vector);
    assert(forall|m: u8| (m == 1 || m == 2) ==> #[trigger] (m & !0b11u8) == 0) by (bit_vector);
    assert(forall|m: u8| (m == 1 || m == 2 || m == 4 || m == 8 || m == 16 || m == 32) ==> #[trigger] (m & !0b111111u8) == 0) by (bit_vector);
    assert(forall|m: u8| #[trigger] (m & !0xffu8) == 0) by (bit_vector);
    assert(forall|a: u8, b: u8| (a == 1 || a == 2 || a == 4 || a == 8 || a == 16 || a == 32 || a == 64 || a == 128)
        && (b == 1 || b == 2 || b == 4 || b == 8 || b == 16 || b == 32 || b == 64 || b == 128) && a != b ==> #[trigger] (a & b) == 0) by (bit_vector);
    assert(0b100u8 | 0b010u8 | 0b001u8 == 0b111u8) by (bit_vector);
    assert(0b1000_0000u8 | 0b0100_0000u8 | 0b0010_0000u8 | 0b0001_0000u8 | 0b0000_1000u8 | 0b0000_0100u8 | 0b0000_0010u8 | 0b0000_0001u8 == 0xffu8) by (bit_vector);
    assert(0b10u8 | 0b01u8 == 0b11u8) by (bit_vector);
    assert(0b100000u8 | 0b010000u8 | 0b001000u8 | 0b000100u8 | 0b000010u8 | 0b000001u8 == 0b111111u8) by (bit_vector);
}

// ---- C18 laws, checked modularly: each law fn calls the real accessors and
// ---- is verified against their contracts only.
fn law_get_after_set_node(s: Segment, node: NodeKind, value: Option<u8>)
    requires node_val_ok(node, value)
{
    let mut t = s;
    t.set_node(node, value);
    let r = t.get_node(node);
    assert(/*#law.get_after_set_node C18*/ r == value);
    let some = t.is_node_some(node);
    assert(/*#law.absent_reads_absent C18*/ value.is_none() ==> !some);
    let m = t.node_match(node, value);
    assert(/*#law.node_match_after_set C18*/ m);
}
fn law_set_node_frame(s: Segment, node: NodeKind, value: Option<u8>, other: NodeKind)
    requires node_val_ok(node, value), !(other is Place), other != node
{
    let before = s.get_node(other);
    let mut t = s;
    t.set_node(node, value);
    let after = t.get_node(other);
    assert(/*#law.set_node_frame C18*/ before == after);
}
fn law_set_feat_then_match(s: Segment, node: NodeKind, feat: u8, pos: bool)
    requires feat_ok(node, feat)
{
    let had = s.is_node_some(node);
    let mut t = s;
    t.set_feat(node, feat, pos);
    let m = t.feat_match(node, feat, pos);
    proof { lemma_u8_masks(); }
    assert(/*#law.set_pos_then_match C18,C04*/ pos ==> m);
    assert(/*#law.set_neg_then_match C18,C04*/ !pos && had ==> m);
    assert(/*#law.set_neg_absent_noop C18,C04*/ !pos && !had ==> !m && t == s);
}
fn law_set_feat_frame(s: Segment, node: NodeKind, feat: u8, pos: bool, other: NodeKind)
    requires feat_ok(node, feat), !(other is Place), other != node
{
    let before = s.get_node(other);
    let mut t = s;
    t.set_feat(node, feat, pos);
    let after = t.get_node(other);
    assert(/*#law.set_feat_frame_nodes C18,C04*/ before == after);
}
fn law_set_feat_other_bits(s: Segment, node: NodeKind, feat: u8, pos: bool, other_bit: u8)
    requires feat_ok(node, feat), other_bit & feat == 0, s.is_node_some_spec(node)
{
    let before = s.get_feat(node, other_bit);
    let mut t = s;
    t.set_feat(node, feat, pos);
    let after = t.get_feat(node, other_bit);
    proof {
        assert(forall|n: u8, f: u8, o: u8| o & f == 0 ==> #[trigger] ((n | f) & o) == n & o) by (bit_vector);
        assert(forall|n: u8, f: u8, o: u8| o & f == 0 ==> #[trigger] ((n & !f) & o) == n & o) by (bit_vector);
    }
    assert(/*#law.set_feat_other_bits_kept C18,C04*/ before == after);
}
fn law_created_node_other_bits_negative(s: Segment, node: NodeKind, feat: u8, other_bit: u8)
    requires feat_ok(node, feat), other_bit & feat == 0, !s.is_node_some_spec(node)
{
    let mut t = s;
    t.set_feat(node, feat, true);
    let o = t.get_feat(node, other_bit);
    proof {
        assert(forall|f: u8, o: u8| o & f == 0 ==> #[trigger] ((0u8 | f) & o) == 0) by (bit_vector);
    }
    assert(/*#law.created_node_others_negative C18,C04*/ o == Some(0u8));
}
fn law_wf_preserved(s: Segment, node: NodeKind, value: Option<u8>, feat: u8, pos: bool)
    requires wf_seg(s), node_val_ok(node, value), (node is Root || node is Laryngeal) ==> value.unwrap() <= 7, feat_ok(node, feat)
{
    let mut t = s;
    t.set_node(node, value);
    assert(/*#law.wf_set_node C18,C08*/ wf_seg(t));
    t.set_feat(node, feat, pos);
    assert(/*#law.wf_set_feat C18,C08*/ wf_seg(t));
}
impl Segment {
    pub open spec fn is_node_some_spec(self, node: NodeKind) -> bool { seg_node(self, node).is_some() }
}
//@ end

//@ contract NodeKind::from_usize ret=r
    requires /*#nodekind.in_range C02*/ value < 8,
    ensures /*#nodekind.from_usize C04*/ nk_index(r) == value,
//@ end
//@ contract FType::from_usize ret=r
    requires /*#ftype.in_range C02*/ value < 26,
    ensures /*#ftype.from_usize C04*/ ft_index(r) == value,
//@ end
//@ contract FType::to_node_mask ret=r
    ensures /*#to_node_mask.table C04,C18*/ r == mask_table(ft_index(*self)),
//@ end
//@ contract FType::count ret=r
    ensures r == 26,
//@ end
//@ contract NodeKind::count ret=r
    ensures r == 8,
//@ end

//@ contract Segment::get_node ret=r
    requires /*#get_node.not_place C02,C18*/ !(node is Place),
    ensures /*#get_node.view C18*/ r == seg_node(*self, node),
//@ end
//@ contract Segment::get_place_node ret=r
    ensures r == self.place,
//@ end
//@ contract Segment::get_place_sub_nodes ret=r
    ensures /*#get_place_sub_nodes C18*/ r == (lab_view(self.place), cor_view(self.place), dor_view(self.place), phr_view(self.place)),
//@ end
//@ contract Segment::set_node
    requires /*#set_node.pre C02,C18*/ node_val_ok(node, value),
    ensures
        /*#set_node.view C18*/ forall|n: NodeKind| !(n is Place) ==> #[trigger] seg_node(*final(self), n) == (if n == node { value } else { seg_node(*old(self), n) }),
        /*#set_node.wf C18,C08*/ wf_seg(*old(self)) && ((node is Root || node is Laryngeal) ==> value.unwrap() <= 7) ==> wf_seg(*final(self)),
        /*#set_node.place_only C18*/ is_major(node) ==> final(self).place == old(self).place,
//@ end
//@ contract Segment::get_feat ret=r
    requires /*#get_feat.not_place C02,C18*/ !(node is Place),
    ensures /*#get_feat.view C18*/ r == (match seg_node(*self, node) { Some(n) => Some(n & feat), None => None }),
//@ end
//@ contract Segment::set_feat
    requires /*#set_feat.pre C02,C18*/ feat_ok(node, feat),
    ensures
        /*#set_feat.frame C18,C04*/ forall|n: NodeKind| !(n is Place) && n != node ==> #[trigger] seg_node(*final(self), n) == seg_node(*old(self), n),
        /*#set_feat.positive C18,C04*/ to_positive ==> seg_node(*final(self), node) == Some(unwrap_or0(seg_node(*old(self), node)) | feat),
        /*#set_feat.negative C18,C04*/ !to_positive ==> seg_node(*final(self), node) == (match seg_node(*old(self), node) { Some(n) => Some(n & !feat), None => None }),
        /*#set_feat.neg_absent_noop C18,C04*/ !to_positive && seg_node(*old(self), node).is_none() ==> *final(self) == *old(self),
        /*#set_feat.wf C18,C08*/ wf_seg(*old(self)) ==> wf_seg(*final(self)),
//@ end
//@ proof_start Segment::set_feat
    lemma_view_ranges(self.place);
    lemma_u8_masks();
//@ end
//@ contract Segment::is_node_some ret=r
    requires /*#is_node_some.not_place C02,C18*/ !(node is Place),
    ensures /*#is_node_some.view C18*/ r == seg_node(*self, node).is_some(),
//@ end
//@ contract Segment::is_node_none ret=r
    requires /*#is_node_none.not_place C02,C18*/ !(node is Place),
    ensures /*#is_node_none.view C18*/ r == seg_node(*self, node).is_none(),
//@ end
//@ contract Segment::is_place_some ret=r
    ensures /*#is_place_some C18*/ r == raw(self.place).is_some(),
//@ end
//@ contract Segment::is_place_none ret=r
    ensures /*#is_place_none C18*/ r == raw(self.place).is_none(),
//@ end
//@ contract Segment::feat_match ret=r
    requires /*#feat_match.not_place C02,C18*/ !(node is Place),
    ensures /*#feat_match.table C18,C04*/ r == (match seg_node(*self, node) { None => false, Some(n) => if positive { n & mask == mask } else { n & mask == 0 } }),
//@ end
//@ contract Segment::node_match ret=r
    requires /*#node_match.not_place C02,C18*/ !(node is Place),
    ensures /*#node_match.table C18,C04*/ r == (seg_node(*self, node) == match_value),
//@ end
