//@ kernel supras serves=C05,C14,C08,C07,C02
//@ item src/place.rs struct Place
//@ item src/seg.rs enum NodeKind
//@ item src/seg.rs struct Segment
//@ item src/lexer.rs struct Position
//@ item src/parser.rs enum BinMod
//@ item src/parser.rs enum AlphaMod
//@ item src/parser.rs enum ModKind
//@ item src/parser.rs impl ModKind members=as_bool
//@ item src/parser.rs struct SupraSegs
//@ item src/rule.rs struct PlaceMod
//@ item src/rule.rs enum Alpha
//@ item src/rule.rs impl Alpha members=as_binary
//@ item src/lexer.rs enum NodeType
//@ item src/lexer.rs enum SupraType
//@ item src/lexer.rs enum FType
//@ item src/lexer.rs enum FeatType
//@ item src/lexer.rs enum TokenKind
//@ item src/lexer.rs struct Token
//@ item src/error/runtime.rs enum RuleRuntimeError
//@ item src/syll.rs enum StressKind
//@ item src/syll.rs type Tone
//@ item src/syll.rs struct Syllable
//@ item src/parser.rs struct Modifiers
//@ item src/lexer.rs impl NodeType members=count
//@ item src/lexer.rs impl FType members=count
//@ item src/seg.rs impl Segment members=apply_seg_mods
//@ item src/syll.rs impl Syllable members=replace_segment,insert_segment,get_seg_length_at,apply_seg_mods,apply_supras,apply_syll_mods

//@ pre
use std::cell::RefCell;
use std::rc::Rc;
use std::collections::{HashMap, VecDeque};

// RefCell is opaque to Verus: the binding table is only ever read by the functions in this kernel
#[verifier::external_type_specification]
#[verifier::external_body]
#[verifier::reject_recursive_types(T)]
pub struct ExRefCell<T: ?Sized>(RefCell<T>);

// std: VecDeque::get_mut is not specified by vstd.  Its documented behaviour (trusted):
pub assume_specification<T, A: core::alloc::Allocator>[ VecDeque::<T, A>::get_mut ](v: &mut VecDeque<T, A>, i: usize) -> (r: Option<&mut T>)
    ensures
        i < old(v)@.len() ==> r is Some && *r->Some_0 == old(v)@[i as int] && final(v)@ == old(v)@.update(i as int, *final(r->Some_0)),
        i >= old(v)@.len() ==> r is None && final(v)@ == old(v)@;

/// result of applying a segmental matrix to one segment (None = error); uninterpreted -- see Segment::apply_seg_mods
pub(crate) uninterp spec fn asm(s: Segment, al: &RefCell<HashMap<char, Alpha>>, nodes: [Option<ModKind>; 8], feats: [Option<ModKind>; 26]) -> Option<Segment>;

/// truth value a bound alpha carries in a binding table (None = unbound).  Uninterpreted: the
/// table is opaque (RefCell<HashMap>), and nothing in this kernel writes to it.
pub(crate) uninterp spec fn alpha_truth(al: &RefCell<HashMap<char, Alpha>>, ch: char) -> Option<bool>;
//@ end

//@ attr ModKind::as_bool
#[verifier::external_body]
//@ end
//@ contract ModKind::as_bool ret=r
    // ASSUMED here (R6: body uses RefCell::borrow + HashMap::get, outside Verus); PROVED for the real
    // body by the Kani harness parser::verif_kani::k4_as_bool.
    ensures
        /*#as_bool.assumed C05*/ (match mk_truth(*self, alphas) { Some(t) => r is Ok && r->Ok_0 == t, None => r is Err }),
//@ end
//@ stub Segment::apply_seg_mods
//@ contract Segment::apply_seg_mods ret=r
    // ASSUMED here (R6: the body reads the RefCell<HashMap> binding table); its behaviour on the
    // segment is PROVED by the Kani harnesses k3_apply_* (C04).  All this kernel needs is that, with
    // is_matching_ipa == false, it is a deterministic function of its arguments that touches only `self`.
    ensures
        /*#seg_apply_seg_mods.assumed_function C14,C05*/ !is_matching_ipa ==> (match asm(*old(self), alphas, nodes, feats) {
            Some(t) => r is Ok && *final(self) == t, None => r is Err }),
//@ end
//@ attr Alpha::as_binary
#[verifier::external_body]
//@ end

//@ post
// derive(PartialEq, Eq) on these plain-data types is structural equality (trusted; Verus does not
// look inside derive expansions).  Segment = 3 x u8 + Place(Option<u16>); StressKind is field-less.
pub assume_specification[ <Segment as PartialEq>::eq ](a: &Segment, b: &Segment) -> (r: bool)
    ensures r == (*a == *b);
pub assume_specification[ <StressKind as PartialEq>::eq ](a: &StressKind, b: &StressKind) -> (r: bool)
    ensures r == (*a == *b);
pub(crate) closed spec fn mk_truth(m: ModKind, al: &RefCell<HashMap<char, Alpha>>) -> Option<bool> {
    match m {
        ModKind::Binary(b) => Some(b is Positive),
        ModKind::Alpha(AlphaMod::Alpha(ch)) => alpha_truth(al, ch),
        ModKind::Alpha(AlphaMod::InvAlpha(ch)) => match alpha_truth(al, ch) { Some(t) => Some(!t), None => None },
    }
}
/// truth of an optional slot (None: slot absent -- or unbound, which the Ok-postconditions exclude)
pub(crate) closed spec fn tv(m: Option<ModKind>, al: &RefCell<HashMap<char, Alpha>>) -> Option<bool> {
    match m { None => None, Some(k) => mk_truth(k, al) }
}
pub(crate) closed spec fn slot_defined(m: Option<ModKind>, al: &RefCell<HashMap<char, Alpha>>) -> bool {
    m matches Some(k) ==> mk_truth(k, al).is_some()
}

// ---------------- length: run of identical segments starting at pos
pub closed spec fn run_from(s: Seq<Segment>, pos: int, i: int) -> int
    decreases s.len() - i
{
    if 0 <= pos < s.len() && pos < i < s.len() && s[i] == s[pos] { 1 + run_from(s, pos, i + 1) } else { 0 }
}
pub closed spec fn run_len(s: Seq<Segment>, pos: int) -> int { 1 + run_from(s, pos, pos + 1) }

/// the syllable with the run at `pos` resized to `m` copies
pub closed spec fn resized(s: Seq<Segment>, pos: int, m: int) -> Seq<Segment> {
    s.subrange(0, pos) + Seq::new(m as nat, |i: int| s[pos]) + s.subrange(pos + run_len(s, pos), s.len() as int)
}

proof fn lemma_run_from(s: Seq<Segment>, pos: int, i: int)
    requires 0 <= pos < i <= s.len()
    ensures 0 <= run_from(s, pos, i) <= s.len() - i,
        forall|j: int| i <= j < i + run_from(s, pos, i) ==> s[j] == s[pos],
        i + run_from(s, pos, i) < s.len() ==> s[i + run_from(s, pos, i)] != s[pos],
    decreases s.len() - i
{
    if i < s.len() && s[i] == s[pos] { lemma_run_from(s, pos, i + 1); }
}
proof fn lemma_run_len(s: Seq<Segment>, pos: int)
    requires 0 <= pos < s.len()
    ensures 1 <= run_len(s, pos) <= s.len() - pos,
        forall|j: int| pos <= j < pos + run_len(s, pos) ==> s[j] == s[pos],
        pos + run_len(s, pos) < s.len() ==> s[pos + run_len(s, pos)] != s[pos],
        s =~= resized(s, pos, run_len(s, pos)),
{
    lemma_run_from(s, pos, pos + 1);
}
proof fn lemma_resize_insert(s0: Seq<Segment>, pos: int, m: int)
    requires 0 <= pos < s0.len(), m >= 0
    ensures resized(s0, pos, m).insert(pos, s0[pos]) =~= resized(s0, pos, m + 1)
{
    lemma_run_len(s0, pos);
}
proof fn lemma_resize_remove(s0: Seq<Segment>, pos: int, m: int)
    requires 0 <= pos < s0.len(), m >= 1
    ensures resized(s0, pos, m).remove(pos) =~= resized(s0, pos, m - 1), pos < resized(s0, pos, m).len()
{
    lemma_run_len(s0, pos);
}
proof fn lemma_resized_len(s0: Seq<Segment>, pos: int, m: int)
    requires 0 <= pos < s0.len(), m >= 0
    ensures resized(s0, pos, m).len() == s0.len() - run_len(s0, pos) + m,
        m >= 1 ==> resized(s0, pos, m)[pos] == s0[pos],
{
    lemma_run_len(s0, pos);
}

proof fn lemma_resized_len_all(s0: Seq<Segment>, pos: int)
    requires 0 <= pos < s0.len()
    ensures forall|m: int| m >= 0 ==> (#[trigger] resized(s0, pos, m)).len() == s0.len() - run_len(s0, pos) + m,
        1 <= run_len(s0, pos) <= s0.len() - pos,
{
    lemma_run_len(s0, pos);
    assert forall|m: int| m >= 0 implies (#[trigger] resized(s0, pos, m)).len() == s0.len() - run_len(s0, pos) + m by {
        lemma_resized_len(s0, pos, m);
    }
}

// ---------------- the manual's tables (doc/doc.md "Suprasegmental Features") and the property text
/// length matching: [-long] short, [+long] at least long, [+overlong] overlong, [-overlong] at most long
pub(crate) closed spec fn len_ok(long: Option<bool>, over: Option<bool>, n: int) -> bool {
    &&& (long matches Some(b) ==> (if b { n >= 2 } else { n <= 1 }))
    &&& (over matches Some(b) ==> (if b { n >= 3 } else { n <= 2 }))
}
/// length setting: the run length after the modifier, None = contradictory ([-long, +overlong])
pub(crate) closed spec fn len_target(long: Option<bool>, over: Option<bool>, n: int) -> Option<int> {
    match (long, over) {
        (None, None) => Some(n),
        (None, Some(true)) => Some(if n < 3 { 3 } else { n }),
        (None, Some(false)) => Some(if n > 2 { 2 } else { n }),
        (Some(true), None) => Some(if n < 2 { 2 } else { n }),
        (Some(false), None) => Some(if n > 1 { 1 } else { n }),
        (Some(true), Some(true)) => Some(if n < 3 { 3 } else { n }),
        (Some(true), Some(false)) => Some(2),
        (Some(false), Some(false)) => Some(if n > 1 { 1 } else { n }),
        (Some(false), Some(true)) => None,
    }
}
/// stress matching: [+stress] primary or secondary, [-stress] unstressed, [+sec] secondary only
pub(crate) closed spec fn stress_ok(st: Option<bool>, sec: Option<bool>, s: StressKind) -> bool {
    &&& (st matches Some(b) ==> (b == !(s is Unstressed)))
    &&& (sec matches Some(b) ==> (b == (s is Secondary)))
}
/// stress setting, None = contradictory ([-stress, +sec.stress])
pub(crate) closed spec fn stress_target(st: Option<bool>, sec: Option<bool>, s: StressKind) -> Option<StressKind> {
    match (st, sec) {
        (None, None) => Some(s),
        (None, Some(true)) => Some(StressKind::Secondary),
        (None, Some(false)) => Some(if s is Secondary { StressKind::Unstressed } else { s }),
        (Some(true), None) => Some(StressKind::Primary),
        (Some(false), None) => Some(StressKind::Unstressed),
        (Some(true), Some(true)) => Some(StressKind::Secondary),
        (Some(true), Some(false)) => Some(StressKind::Primary),
        (Some(false), Some(false)) => Some(StressKind::Unstressed),
        (Some(false), Some(true)) => None,
    }
}

// ---------------- C05 laws over the tables (the statement itself)
proof fn law_set_then_match_length(long: Option<bool>, over: Option<bool>, n: int)
    requires n >= 1
    ensures /*#law.len_set_then_match C05*/ len_target(long, over, n) matches Some(t) ==> t >= 1 && len_ok(long, over, t),
        /*#law.len_contradiction C05*/ len_target(long, over, n).is_none() <==> (long == Some(false) && over == Some(true)),
        /*#law.len_noop_when_matching C05*/ len_ok(long, over, n) && len_target(long, over, n).is_some() ==> len_target(long, over, n) == Some(n),
        /*#law.plus_long_alone C05*/ len_target(Some(true), None, 1) == Some(2int) && len_target(Some(true), None, 2) == Some(2int) && len_target(Some(true), None, 3) == Some(3int),
{}
proof fn law_set_then_match_stress(st: Option<bool>, sec: Option<bool>, s: StressKind)
    ensures /*#law.stress_set_then_match C05*/ stress_target(st, sec, s) matches Some(t) ==> stress_ok(st, sec, t),
        /*#law.stress_contradiction C05*/ stress_target(st, sec, s).is_none() <==> (st == Some(false) && sec == Some(true)),
        /*#law.plus_stress_alone_is_primary C05*/ stress_target(Some(true), None, s) == Some(StressKind::Primary),
{}

// ---------------- C07, length: an alpha bound by matching [alpha long, beta overlong] on a run of n
// (capture rule proved on the real match_seg_length by Kani: alpha := n > 1, beta := n > 2) and written
// back through apply_supras leaves the run length unchanged.
proof fn law_alpha_length_identity(n: int)
    requires n >= 1
    ensures /*#law.alpha_length_identity C07*/
        len_target(Some(n > 1), None, n) == Some(n),
        len_target(None, Some(n > 2), n) == Some(n),
        len_target(Some(n > 1), Some(n > 2), n) == Some(n),
{}

// ---------------- witnesses (preconditions satisfiable, calls reachable)
fn witness_supras(sy: &mut Syllable, alphas: &RefCell<HashMap<char, Alpha>>, p: Position)
    requires old(sy).segments@.len() == 2, old(sy).segments@[0] != old(sy).segments@[1],
{
    let n = sy.get_seg_length_at(0);
    proof { lemma_run_len(sy.segments@, 0); }
    assert(n == 1);
    let mods = SupraSegs { stress: [Some(ModKind::Binary(BinMod::Positive)), None], length: [Some(ModKind::Binary(BinMod::Positive)), None], tone: Some(5) };
    let r = sy.apply_supras(alphas, &mods, 0, p);
    assert(r is Ok);
    assert(sy.stress is Primary && sy.tone == 5);
    assert(sy.segments@.len() == 3);
}
//@ end

//@ contract Syllable::get_seg_length_at ret=r
    requires /*#get_seg_length_at.in_bounds C02,C05*/ pos < self.segments@.len(),
    ensures
        /*#get_seg_length_at.run C05*/ r as int == run_len(self.segments@, pos as int),
        /*#get_seg_length_at.bounds C05,C02*/ 1 <= r && pos + r <= self.segments@.len(),
        /*#get_seg_length_at.maximal C05*/ forall|j: int| pos <= j < pos + r ==> self.segments@[j] == self.segments@[pos as int],
        pos + r < self.segments@.len() ==> self.segments@[pos + r] != self.segments@[pos as int],
        self.segments@ =~= resized(self.segments@, pos as int, r as int),
//@ end
//@ loop Syllable::get_seg_length_at 0
    invariant
        pos < s_i <= self.segments@.len(),
        len == s_i - pos,
        forall|j: int| pos <= j < s_i ==> self.segments@[j] == self.segments@[pos as int],
        run_len(self.segments@, pos as int) == (s_i - pos) + run_from(self.segments@, pos as int, s_i as int),
    decreases self.segments@.len() - s_i,
//@ end

//@ attr Syllable::apply_supras
#[verifier::loop_isolation(false)]
//@ end
//@ contract Syllable::apply_supras ret=r
    requires
        /*#apply_supras.in_bounds C02,C05*/ pos < old(self).segments@.len(),
        // Rust collections never hold more than isize::MAX elements (allocation limit); with the
        // length-change counter an isize this makes every `len_change += / -= 1` overflow-free.
        /*#apply_supras.std_len_limit C02*/ old(self).segments@.len() + 3 <= isize::MAX,
    ensures
        /*#apply_supras.length_table C05,C02*/ r matches Ok(lc) ==> (
            len_target(tv(mods.length[0], alphas), tv(mods.length[1], alphas), run_len(old(self).segments@, pos as int)) matches Some(t)
            && final(self).segments@ =~= resized(old(self).segments@, pos as int, t)
            && lc as int == t - run_len(old(self).segments@, pos as int)),
        /*#apply_supras.stress_tone_table C05,C14*/ r is Ok ==> (
            stress_target(tv(mods.stress[0], alphas), tv(mods.stress[1], alphas), old(self).stress) == Some(final(self).stress)
            && final(self).tone == (match mods.tone { Some(t) => t, None => old(self).tone })),
        /*#apply_supras.contradictions_are_errors C05*/ (tv(mods.length[0], alphas) == Some(false) && tv(mods.length[1], alphas) == Some(true)) ==> r is Err,
        (tv(mods.stress[0], alphas) == Some(false) && tv(mods.stress[1], alphas) == Some(true)) ==> r is Err,
        /*#apply_supras.errors_only_when_documented C05*/ (slot_defined(mods.length[0], alphas) && slot_defined(mods.length[1], alphas)
            && slot_defined(mods.stress[0], alphas) && slot_defined(mods.stress[1], alphas)
            && !(tv(mods.length[0], alphas) == Some(false) && tv(mods.length[1], alphas) == Some(true))
            && !(tv(mods.stress[0], alphas) == Some(false) && tv(mods.stress[1], alphas) == Some(true))) ==> r is Ok,
        /*#apply_supras.length_change_is_the_size_change C02,C05*/ r matches Ok(lc) ==> (
            final(self).segments@.len() == old(self).segments@.len() + lc && -(old(self).segments@.len() as int) <= lc <= 3),
        /*#apply_supras.prosody_only_leaves_segments C14*/ (mods.length[0].is_none() && mods.length[1].is_none()) ==> final(self).segments@ =~= old(self).segments@,
//@ end
//@ proof_start Syllable::apply_supras
    lemma_run_len(self.segments@, pos as int);
    lemma_resized_len_all(self.segments@, pos as int);
//@ end
// The eight resize loops come in two shapes, told apart by their HEADER (`while seg_len < N` grows the run by inserting
// copies, `while seg_len > N` shrinks it by removing them).  The invariants are keyed on that header, not on the loop
// ordinal, so a loop that is deleted, added or moved still gets its invariant and what then fails (or not) is the
// length table in the postcondition.  A loop with any other header is an anchor loss (exit 2).
//@ loop_each_ghost_before Syllable::apply_supras while seg_len [<>] (\d+)
    let ghost e_in = seg_len as int;     // run length at loop entry (a loop may follow another one)
//@ end
//@ loop_each Syllable::apply_supras while seg_len < (\d+)
    invariant
        pos < old(self).segments@.len(), seg == old(self).segments@[pos as int],
        self.segments@ =~= resized(old(self).segments@, pos as int, seg_len as int),
        len_change as int == seg_len as int - run_len(old(self).segments@, pos as int),
        1 <= seg_len, e_in <= seg_len, seg_len <= $1 || seg_len as int == e_in,
        self.stress == old(self).stress, self.tone == old(self).tone,
    decreases $1 - seg_len,
//@ end
//@ loop_each_proof_start Syllable::apply_supras while seg_len < (\d+)
    lemma_resized_len(old(self).segments@, pos as int, seg_len as int);
    lemma_run_len(old(self).segments@, pos as int);
//@ end
//@ loop_each_proof_end Syllable::apply_supras while seg_len < (\d+)
    lemma_resize_insert(old(self).segments@, pos as int, seg_len as int - 1);
//@ end
//@ loop_each Syllable::apply_supras while seg_len > (\d+)
    invariant
        pos < old(self).segments@.len(), seg == old(self).segments@[pos as int],
        self.segments@ =~= resized(old(self).segments@, pos as int, seg_len as int),
        len_change as int == seg_len as int - run_len(old(self).segments@, pos as int),
        1 <= seg_len, seg_len <= e_in, seg_len >= $1 || seg_len as int == e_in,
        self.stress == old(self).stress, self.tone == old(self).tone,
    decreases seg_len,
//@ end
//@ loop_each_proof_start Syllable::apply_supras while seg_len > (\d+)
    lemma_resized_len(old(self).segments@, pos as int, seg_len as int);
    lemma_run_len(old(self).segments@, pos as int);
    lemma_resize_remove(old(self).segments@, pos as int, seg_len as int);
//@ end

//@ contract Syllable::apply_syll_mods ret=r
    ensures
        /*#apply_syll_mods.segments_untouched C14,C05*/ final(self).segments == old(self).segments,
        /*#apply_syll_mods.stress_table C05*/ r is Ok ==> stress_target(tv(mods.stress[0], alphas), tv(mods.stress[1], alphas), old(self).stress) == Some(final(self).stress),
        /*#apply_syll_mods.tone C05*/ r is Ok ==> final(self).tone == (match mods.tone { Some(t) => t, None => old(self).tone }),
        /*#apply_syll_mods.contradiction_is_error C05*/ (tv(mods.stress[0], alphas) == Some(false) && tv(mods.stress[1], alphas) == Some(true)) ==> r is Err,
        /*#apply_syll_mods.errors_only_when_documented C05*/ (slot_defined(mods.stress[0], alphas) && slot_defined(mods.stress[1], alphas)
            && !(tv(mods.stress[0], alphas) == Some(false) && tv(mods.stress[1], alphas) == Some(true))) ==> r is Ok,
        /*#apply_syll_mods.error_leaves_state C05*/ r is Err ==> final(self).stress == old(self).stress && final(self).tone == old(self).tone,
//@ end

// =================================================================== Syllable::apply_seg_mods / replace_segment / insert_segment
//@ attr Syllable::apply_seg_mods
#[verifier::loop_isolation(false)]
//@ end
//@ contract Syllable::apply_seg_mods ret=r
    requires
        /*#syll_apply_seg_mods.in_bounds C02*/ start_pos < old(self).segments@.len(),
        old(self).segments@.len() + 3 <= isize::MAX,
    ensures
        /*#syll_apply_seg_mods.segmental_only_keeps_prosody_and_count C14*/ (r is Ok && mods.suprs.length[0].is_none() && mods.suprs.length[1].is_none()
            && mods.suprs.stress[0].is_none() && mods.suprs.stress[1].is_none() && mods.suprs.tone.is_none()) ==> (
            final(self).stress == old(self).stress && final(self).tone == old(self).tone
            && final(self).segments@.len() == old(self).segments@.len()
            && r->Ok_0 == 0
            && (forall|j: int| 0 <= j < old(self).segments@.len() && !(start_pos <= j < start_pos + run_len(old(self).segments@, start_pos as int))
                    ==> final(self).segments@[j] == old(self).segments@[j])
            && (forall|j: int| start_pos <= j < start_pos + run_len(old(self).segments@, start_pos as int)
                    ==> Some(final(self).segments@[j]) == asm(old(self).segments@[start_pos as int], alphas, mods.nodes, mods.feats))),
        /*#syll_apply_seg_mods.length_change_bounded C02*/ r matches Ok(lc) ==> -(old(self).segments@.len() as int) <= lc <= 3
            && final(self).segments@.len() == old(self).segments@.len() + lc,
//@ end
//@ loop Syllable::apply_seg_mods 0
    invariant
        start_pos < old(self).segments@.len(),
        pos + seg_len == start_pos + run_len(old(self).segments@, start_pos as int),
        start_pos <= pos, pos + seg_len <= old(self).segments@.len(),
        self.segments@.len() == old(self).segments@.len(),
        self.stress == old(self).stress, self.tone == old(self).tone,
        forall|j: int| 0 <= j < self.segments@.len() && !(start_pos <= j < pos) ==> self.segments@[j] == old(self).segments@[j],
        forall|j: int| start_pos <= j < pos ==> Some(self.segments@[j]) == asm(old(self).segments@[start_pos as int], alphas, mods.nodes, mods.feats),
    decreases seg_len,
//@ end
//@ proof_start Syllable::apply_seg_mods
    lemma_run_len(self.segments@, start_pos as int);
//@ end

//@ attr Syllable::replace_segment
#[verifier::loop_isolation(false)]
//@ end
//@ contract Syllable::replace_segment ret=r
    requires
        /*#replace_segment.in_bounds C02*/ pos < old(self).segments@.len(),
        old(self).segments@.len() + 3 <= isize::MAX,
    ensures
        /*#replace_segment.one_for_one C14,C05,C02*/ mods.is_none() ==> (r is Ok
            && final(self).segments@ =~= old(self).segments@.subrange(0, pos as int).push(*seg)
                + old(self).segments@.subrange(pos + run_len(old(self).segments@, pos as int), old(self).segments@.len() as int)
            && r->Ok_0 == 1 - run_len(old(self).segments@, pos as int)
            && final(self).stress == old(self).stress && final(self).tone == old(self).tone),
//@ end
//@ loop_ghost_before Syllable::replace_segment 0
    let ghost s_in = self.segments@;      // state at loop entry (the code may already have overwritten segments[pos])
    let ghost n_in = seg_len as int;
//@ end
//@ loop Syllable::replace_segment 0
    invariant
        pos < s_in.len(), pos + n_in <= s_in.len(),
        1 <= seg_len, seg_len as int <= n_in,
        self.segments@ =~= s_in.subrange(0, pos + 1) + s_in.subrange(pos + 1 + (n_in - seg_len), s_in.len() as int),
        self.stress == old(self).stress, self.tone == old(self).tone,
    decreases seg_len,
//@ end
//@ proof_start Syllable::replace_segment
    lemma_run_len(self.segments@, pos as int);
//@ end

//@ contract Syllable::insert_segment ret=r
    requires old(self).segments@.len() + 4 <= isize::MAX,
        /*#insert_segment.mods_need_in_bounds_pos C02*/ mods.is_some() ==> pos <= old(self).segments@.len(),
    ensures
        /*#insert_segment.inserts_one C14,C02*/ mods.is_none() ==> (r is Ok && r->Ok_0 == 0
            && final(self).segments@ =~= (if pos > old(self).segments@.len() { old(self).segments@.push(*seg) } else { old(self).segments@.insert(pos as int, *seg) })
            && final(self).stress == old(self).stress && final(self).tone == old(self).tone),
//@ end
