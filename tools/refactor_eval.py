#!/usr/bin/env python3
"""tools/refactor_eval.py <refdir> <name> <Cxx,Cyy,...>

False-alarm test: <refdir>/patch.diff is a BEHAVIOUR-PRESERVING refactoring written by a sub-agent.
It is applied to a private copy of /repo's HEAD and the named checks are run against that copy.
Expected: exit 0 (still proved) or exit 2 (undecided: proof script lost its anchor / construct outside
the subset).  exit 1 would be a false alarm.  Kept under /verif/seeded/refactors/<name>/.
"""
import json
import os
import shutil
import subprocess
import sys
import time


def sh(cmd, cwd=None, timeout=7200):
    p = subprocess.run(cmd, cwd=cwd, shell=True, stdout=subprocess.PIPE, stderr=subprocess.STDOUT, text=True, timeout=timeout)
    return p.returncode, p.stdout


def main():
    refdir, name, props = sys.argv[1], sys.argv[2], sys.argv[3].split(',')
    dst = os.path.join('/verif/seeded/refactors', name)
    os.makedirs(dst, exist_ok=True)
    if os.path.abspath(refdir) != os.path.abspath(dst):
        shutil.copy(os.path.join(refdir, 'patch.diff'), os.path.join(dst, 'patch.diff'))
    meta = json.load(open(os.path.join(refdir, 'meta.json')))
    meta['kind'] = 'behaviour-preserving refactoring (false-alarm test)'
    rcopy = '/tmp/refrepo-%s' % name
    sh('rm -rf %s && mkdir -p %s && git -C /repo archive HEAD | tar -x -C %s' % (rcopy, rcopy, rcopy))
    rc, out = sh('patch -p1 -s < %s' % os.path.join(dst, 'patch.diff'), cwd=rcopy)
    if rc:
        print('patch does not apply:', out[-300:])
        return 3
    # my own confirmation that the suite still passes
    rc, out = sh('CARGO_TARGET_DIR=/tmp/refrepo-target cargo test --offline --workspace --no-fail-fast 2>&1 | grep "test result" | head -1', cwd=rcopy)
    meta['tests_line'] = out.strip()
    runs = []
    for p in props:
        t0 = time.time()
        rc, out = sh('VERIF_OUT=/tmp/verif-eval-out VERIF_REPO=%s VERIF_JOBS=%s ./check %s --tier quick' % (rcopy, os.environ.get('VERIF_JOBS', '8'), p), cwd='/verif')
        lines = [l for l in out.split('\n') if l.startswith(('VIOLATION', 'KNOWN-FINDING', 'UNDECIDED', 'OK ', 'note:', '  obligation='))]
        runs.append(dict(check=p, exit=rc, seconds=round(time.time() - t0), lines=lines[:8]))
        print('%s: check %s -> exit %d (%ds) %s' % (name, p, rc, time.time() - t0, ' | '.join(l[:150] for l in lines[:3])))
    shutil.rmtree(rcopy, ignore_errors=True)
    prev = {}
    if os.path.exists(os.path.join(dst, 'meta.json')):
        prev = json.load(open(os.path.join(dst, 'meta.json')))
    meta['earlier_runs'] = prev.get('earlier_runs', []) + [r for r in prev.get('check_runs', []) if any(r['check'] == n['check'] for n in runs)]
    meta['check_runs'] = [r for r in prev.get('check_runs', []) if not any(r['check'] == n['check'] for n in runs)] + runs
    if prev.get('note'):
        meta['note'] = prev['note']
    meta['false_alarm'] = any(r['exit'] == 1 for r in runs)
    json.dump(meta, open(os.path.join(dst, 'meta.json'), 'w'), indent=1, ensure_ascii=False)
    return 0


if __name__ == '__main__':
    sys.exit(main())
