// ---- K2: Segment accessors against the abstract view (three bytes + four place sub-nodes).
use crate::place::verif_kani::{any_place, v_lab, v_cor, v_dor, v_phr, wf_place};

pub(crate) const NODES7: [NodeKind; 7] = [NodeKind::Root, NodeKind::Manner, NodeKind::Laryngeal, NodeKind::Labial, NodeKind::Coronal, NodeKind::Dorsal, NodeKind::Pharyngeal];

/// documented (node, mask) table, feature order of the manual (src/seg.rs:113-116, src/place.rs:13-16)
pub(crate) const MASK_TABLE: [(NodeKind, u8); 26] = [
    (NodeKind::Root, 0b100), (NodeKind::Root, 0b010), (NodeKind::Root, 0b001),
    (NodeKind::Manner, 0x80), (NodeKind::Manner, 0x40), (NodeKind::Manner, 0x20), (NodeKind::Manner, 0x10),
    (NodeKind::Manner, 0x08), (NodeKind::Manner, 0x04), (NodeKind::Manner, 0x02), (NodeKind::Manner, 0x01),
    (NodeKind::Laryngeal, 0b100), (NodeKind::Laryngeal, 0b010), (NodeKind::Laryngeal, 0b001),
    (NodeKind::Labial, 0b10), (NodeKind::Labial, 0b01),
    (NodeKind::Coronal, 0b10), (NodeKind::Coronal, 0b01),
    (NodeKind::Dorsal, 0b100000), (NodeKind::Dorsal, 0b010000), (NodeKind::Dorsal, 0b001000),
    (NodeKind::Dorsal, 0b000100), (NodeKind::Dorsal, 0b000010), (NodeKind::Dorsal, 0b000001),
    (NodeKind::Pharyngeal, 0b10), (NodeKind::Pharyngeal, 0b01),
];

pub(crate) fn any_segment() -> Segment {
    Segment { root: kani::any(), manner: kani::any(), laryngeal: kani::any(), place: any_place() }
}
pub(crate) fn wf_seg(s: &Segment) -> bool { s.root <= 7 && s.laryngeal <= 7 && wf_place(&s.place) }
pub(crate) fn any_wf_segment() -> Segment { let s = any_segment(); kani::assume(wf_seg(&s)); s }

pub(crate) fn v_node(s: &Segment, n: NodeKind) -> Option<u8> {
    match n {
        NodeKind::Root => Some(s.root), NodeKind::Manner => Some(s.manner), NodeKind::Laryngeal => Some(s.laryngeal),
        NodeKind::Labial => v_lab(&s.place), NodeKind::Coronal => v_cor(&s.place),
        NodeKind::Dorsal => v_dor(&s.place), NodeKind::Pharyngeal => v_phr(&s.place),
        NodeKind::Place => None,
    }
}
pub(crate) fn width(n: NodeKind) -> u8 {
    match n { NodeKind::Root | NodeKind::Laryngeal => 0b111, NodeKind::Manner => 0xff, NodeKind::Dorsal => 0b111111, NodeKind::Place => 0, _ => 0b11 }
}
pub(crate) fn any_node7() -> NodeKind {
    let k: u8 = kani::any();
    kani::assume(k < 7);
    NODES7[k as usize]
}
pub(crate) fn node_val_ok(n: NodeKind, v: Option<u8>) -> bool {
    match n {
        NodeKind::Root | NodeKind::Manner | NodeKind::Laryngeal => v.is_some(),
        NodeKind::Place => false,
        _ => match v { Some(x) => x & !width(n) == 0, None => true },
    }
}

//% props=C18,C08 tier=quick kind=P covers=set_node.*,get_node.*,is_node_some.*,is_node_none.*,law.get_after_set_node,law.absent_reads_absent,law.node_match_after_set,law.set_node_frame,law.wf_set_node,set_lab.in_range,set_cor.in_range,set_dor.in_range,set_phr.in_range pair=Segment::set_node,Segment::get_node,Segment::is_node_some,Segment::is_node_none
#[kani::proof]
#[kani::unwind(9)]
fn k2_set_node_get_node() {
    let old = any_segment();
    let node = any_node7();
    let value: Option<u8> = kani::any();
    kani::assume(node_val_ok(node, value));
    let mut s = old;
    s.set_node(node, value);
    assert!(s.get_node(node) == value, "get-after-set (node)");
    assert!(s.is_node_some(node) == value.is_some() && s.is_node_none(node) == value.is_none(), "absent reads back absent");
    assert!(s.node_match(node, value), "node_match after set");
    let mut i = 0;
    while i < 7 {
        let o = NODES7[i];
        assert!(v_node(&s, o) == if o == node { value } else { v_node(&old, o) }, "whole-view postcondition of set_node");
        assert!(s.get_node(o) == v_node(&s, o), "get_node equals the view");
        i += 1;
    }
    let strict = match node { NodeKind::Root | NodeKind::Laryngeal => value.unwrap() <= 7, _ => true };
    assert!(!(wf_seg(&old) && strict) || wf_seg(&s), "wf preserved by set_node");
    kani::cover!(value.is_none());
    kani::cover!(wf_seg(&old) && value.is_some());
}

//% props=C18,C04,C08 tier=quick kind=P covers=set_feat.*,get_feat.*,law.set_pos_then_match,law.set_neg_then_match,law.set_neg_absent_noop,law.set_feat_frame_nodes,law.wf_set_feat,law.set_feat_other_bits_kept,law.created_node_others_negative pair=Segment::set_feat,Segment::feat_match,Segment::get_feat
#[kani::proof]
#[kani::unwind(9)]
fn k2_set_feat_laws() {
    let old = any_segment();
    let node = any_node7();
    let feat: u8 = kani::any();
    let pos: bool = kani::any();
    kani::assume(feat & !width(node) == 0);
    let mut s = old;
    s.set_feat(node, feat, pos);
    let before = v_node(&old, node);
    let after = v_node(&s, node);
    if pos {
        assert!(after == Some(before.unwrap_or(0) | feat), "positive: creates the node with other features negative / keeps other bits");
        assert!(s.feat_match(node, feat, true), "set-then-match (+)");
    } else {
        match before {
            Some(n) => { assert!(after == Some(n & !feat), "negative on present node clears exactly feat"); assert!(s.feat_match(node, feat, false), "set-then-match (-)"); }
            None => { assert!(s == old, "negative feature of an absent sub-node does nothing"); assert!(!s.feat_match(node, feat, false), "absent node matches neither"); }
        }
    }
    let mut i = 0;
    while i < 7 {
        let o = NODES7[i];
        if o != node { assert!(v_node(&s, o) == v_node(&old, o), "set_feat frame: every other node unchanged"); }
        i += 1;
    }
    assert!(s.get_feat(node, feat) == after.map(|n| n & feat), "get_feat equals the view");
    assert!(!wf_seg(&old) || wf_seg(&s), "wf preserved by set_feat");
    kani::cover!(pos && before.is_none());
    kani::cover!(!pos && before.is_none());
}

//% props=C18,C04 tier=quick kind=P covers=feat_match.*,node_match.*,is_place_some,is_place_none,get_place_sub_nodes pair=Segment::feat_match,Segment::node_match,Segment::is_place_some,Segment::is_place_none,Segment::get_place_sub_nodes
#[kani::proof]
#[kani::unwind(9)]
fn k2_match_tables() {
    let s = any_segment();
    let node = any_node7();
    let mask: u8 = kani::any();
    let pos: bool = kani::any();
    let mv: Option<u8> = kani::any();
    let exp = match v_node(&s, node) { None => false, Some(n) => if pos { n & mask == mask } else { n & mask == 0 } };
    assert!(s.feat_match(node, mask, pos) == exp, "feat_match truth table (absent node matches neither)");
    assert!(s.node_match(node, mv) == (v_node(&s, node) == mv), "node_match truth table");
    assert!(s.is_place_some() == s.place.raw_for_verif().is_some() && s.is_place_none() != s.is_place_some(), "is_place_*");
    assert!(s.get_place_sub_nodes() == (v_lab(&s.place), v_cor(&s.place), v_dor(&s.place), v_phr(&s.place)), "get_place_sub_nodes equals the view");
}

//% props=C04,C18 tier=quick kind=P covers=to_node_mask.*,ftype.*,nodekind.* pair=FType::to_node_mask,FType::from_usize,NodeKind::from_usize
#[kani::proof]
#[kani::unwind(28)]
fn k2_feature_table() {
    let mut i = 0;
    while i < 26 {
        let (n, m) = FType::from_usize(i).to_node_mask();
        assert!(n == MASK_TABLE[i].0 && m == MASK_TABLE[i].1, "feature -> (node, bit) equals the documented table");
        assert!(FType::from_usize(i) as usize == i, "FType::from_usize is the identity on indices");
        i += 1;
    }
    let mut k = 0;
    while k < 8 {
        assert!(NodeKind::from_usize(k) as usize == k);
        assert!(NodeType::from_usize(k) as usize == k);
        k += 1;
    }
    assert!(FType::count() == 26 && NodeKind::count() == 8 && NodeType::count() == 8);
}

// =====================================================================================
// K3: Segment::apply_seg_mods  (C04 P1-P5, A2; C08 wf preservation; C14 frame is at Syllable level)
// =====================================================================================
use crate::rule::PlaceMod;

pub(crate) fn pos0() -> Position { Position::new(0, 0, 0, 1) }
pub(crate) fn new_alphas() -> RefCell<HashMap<char, Alpha>> { RefCell::new(HashMap::new()) }
pub(crate) const POS: Option<ModKind> = Some(ModKind::Binary(BinMod::Positive));
pub(crate) const NEG: Option<ModKind> = Some(ModKind::Binary(BinMod::Negative));

pub(crate) fn any_binmod() -> Option<ModKind> {
    let k: u8 = kani::any();
    kani::assume(k < 3);
    match k { 0 => None, 1 => POS, _ => NEG }
}
pub(crate) fn any_bin_nodes() -> [Option<ModKind>; 8] {
    [any_binmod(), any_binmod(), any_binmod(), any_binmod(), any_binmod(), any_binmod(), any_binmod(), any_binmod()]
}
pub(crate) fn any_bin_feats() -> [Option<ModKind>; 26] {
    let mut f = [None; 26];
    let mut i = 0;
    while i < 26 { f[i] = any_binmod(); i += 1; }
    f
}
/// index of a node in NODES7 (Place has none)
pub(crate) fn slot(n: NodeKind) -> usize {
    match n { NodeKind::Root => 0, NodeKind::Manner => 1, NodeKind::Laryngeal => 2, NodeKind::Labial => 3, NodeKind::Coronal => 4, NodeKind::Dorsal => 5, NodeKind::Pharyngeal => 6, NodeKind::Place => 7 }
}
pub(crate) fn view7(s: &Segment) -> [Option<u8>; 7] {
    [Some(s.root), Some(s.manner), Some(s.laryngeal), v_lab(&s.place), v_cor(&s.place), v_dor(&s.place), v_phr(&s.place)]
}
pub(crate) struct Exp { pub view: [Option<u8>; 7], pub contradictory: [bool; 7] }

/// C04 as a spec function of (old view, matrix): named features get the named value; a positive feature
/// (or +node) creates an absent sub-node with its other features negative; a negative feature of an absent
/// sub-node does nothing; -node / -place removes; everything not named keeps its value.
pub(crate) fn expected(o: &Segment, nodes: &[Option<ModKind>; 8], feats: &[Option<ModKind>; 26]) -> Exp {
    let ov = view7(o);
    let mut plus = [0u8; 7];
    let mut minus = [0u8; 7];
    let mut i = 0;
    while i < 26 {
        let (n, m) = MASK_TABLE[i];
        if feats[i] == POS { plus[slot(n)] |= m } else if feats[i] == NEG { minus[slot(n)] |= m }
        i += 1;
    }
    let mut view = [None; 7];
    let mut contradictory = [false; 7];
    let mut k = 0;
    while k < 7 {
        if k < 3 {
            view[k] = Some((ov[k].unwrap() | plus[k]) & !minus[k]);
        } else {
            let nm = nodes[k + 1]; // nodes[] is indexed by NodeKind, which has Place at 3
            let removed = nm == NEG || nodes[3] == NEG;
            let created = nm == POS || plus[k] != 0;
            contradictory[k] = removed && created;
            let kept = ov[k].is_some() && !removed;
            let base = if kept { ov[k].unwrap() } else { 0 };
            view[k] = if created || kept { Some((base | plus[k]) & !minus[k]) } else { None };
        }
        k += 1;
    }
    Exp { view, contradictory }
}

//% props=C04,C08,C02 tier=quick kind=P timeout=900 pair=Segment::apply_seg_mods clause="P1-P5: binary matrix sets exactly the named features, for all wf segments x all 3^8 x 3^26 matrices"
#[kani::proof]
#[kani::unwind(28)]
fn k3_apply_seg_mods_binary() {
    let o = any_wf_segment();
    let nodes = any_bin_nodes();
    let feats = any_bin_feats();
    let alphas = new_alphas();
    let mut s = o;
    let r = s.apply_seg_mods(&alphas, nodes, feats, pos0(), false);
    let bad = nodes[0].is_some() || nodes[1].is_some() || nodes[2].is_some() || nodes[3] == POS;
    assert!(r.is_err() == bad, "P5: +/-root, +/-manner, +/-laryngeal and +place are errors, nothing else is");
    if let Err(e) = &r {
        assert!(matches!(e, RuleRuntimeError::NodeCannotBeNone(..) | RuleRuntimeError::NodeCannotBeSome(..)), "P5: documented error kind");
    } else {
        let exp = expected(&o, &nodes, &feats);
        let got = view7(&s);
        let mut k = 0;
        while k < 7 {
            if !exp.contradictory[k] { assert!(got[k] == exp.view[k], "P2/P3: whole-view postcondition of a binary matrix"); }
            k += 1;
        }
        let mut i = 0;
        while i < 26 {
            let (n, m) = MASK_TABLE[i];
            if feats[i] == POS { assert!(s.feat_match(n, m, true), "P1: every +F holds afterwards"); }
            if feats[i] == NEG { assert!(got[slot(n)].is_none() || got[slot(n)].unwrap() & m == 0, "P1: every -F is clear or its node absent"); }
            i += 1;
        }
        assert!(wf_seg(&s), "P4: bundle stays well formed");
        if nodes[3] == NEG && !(exp.contradictory[3] || exp.contradictory[4] || exp.contradictory[5] || exp.contradictory[6])
            && nodes[4] != POS && nodes[5] != POS && nodes[6] != POS && nodes[7] != POS
            && got[3].is_none() && got[4].is_none() && got[5].is_none() && got[6].is_none() {
            assert!(s.place.raw_for_verif().is_none(), "-place leaves an absent place");
        }
    }
    kani::cover!(r.is_ok() && o.place.raw_for_verif().is_none() && s.place.raw_for_verif().is_some());
    kani::cover!(r.is_err());
}

pub(crate) fn any_alpha_value() -> Alpha {
    let k: u8 = kani::any();
    kani::assume(k < 4);
    match k {
        0 => Alpha::Feature(kani::any()),
        1 => Alpha::Supra(kani::any()),
        2 => { let n = any_node7(); let v: Option<u8> = kani::any(); kani::assume(node_val_ok(n, v)); Alpha::Node(n, v) }
        _ => any_place_alpha(),
    }
}
pub(crate) fn any_place_mod() -> PlaceMod {
    let pm = PlaceMod { lab: kani::any(), cor: kani::any(), dor: kani::any(), phr: kani::any() };   // struct literal: does not depend on a helper constructor
    kani::assume(node_val_ok(NodeKind::Labial, pm.lab) && node_val_ok(NodeKind::Coronal, pm.cor) && node_val_ok(NodeKind::Dorsal, pm.dor) && node_val_ok(NodeKind::Pharyngeal, pm.phr));
    pm
}
pub(crate) fn any_place_alpha() -> Alpha { Alpha::Place(any_place_mod()) }
/// manual, "Nodes and Subnodes": an alpha holding a node used on a binary feature is positive iff the node is present
pub(crate) fn alpha_truth(a: &Alpha) -> bool {
    match a {
        Alpha::Feature(b) | Alpha::Supra(b) => *b,
        Alpha::Node(_, v) => v.is_some(),
        Alpha::Place(pm) => pm.lab.is_some() || pm.cor.is_some() || pm.dor.is_some() || pm.phr.is_some(),
    }
}

//% props=C04,C07,C08 tier=quick tier.C07=thorough tier.C08=thorough kind=P timeout=1200 pair=Segment::apply_seg_mods,Alpha::as_binary clause="A2: a bound alpha (or its inverse) on a feature behaves as the binary value it carries"
#[kani::proof]
#[kani::unwind(28)]
fn k3_apply_alpha_feature() {
    let o = any_wf_segment();
    let i: usize = kani::any();
    kani::assume(i < 26);
    let inv: bool = kani::any();
    let a = any_alpha_value();
    let truth = alpha_truth(&a) != inv;
    let alphas = new_alphas();
    alphas.borrow_mut().insert('α', a);
    let mut feats = [None; 26];
    feats[i] = Some(ModKind::Alpha(if inv { AlphaMod::InvAlpha('α') } else { AlphaMod::Alpha('α') }));
    let mut s = o;
    let r = s.apply_seg_mods(&alphas, [None; 8], feats, pos0(), false);
    assert!(r.is_ok());
    let mut bin = [None; 26];
    bin[i] = if truth { POS } else { NEG };
    let exp = expected(&o, &[None; 8], &bin);
    assert!(view7(&s) == exp.view, "A2: same whole-view result as the binary matrix [±F]");
    assert!(wf_seg(&s));
}

//% props=C04,C07 tier=quick kind=P timeout=1200 pair=Segment::apply_seg_mods clause="A2: an unbound alpha in an output matrix is AlphaUnknown and changes nothing"
#[kani::proof]
#[kani::unwind(28)]
fn k3_apply_alpha_unbound() {
    let o = any_wf_segment();
    let i: usize = kani::any();
    kani::assume(i < 26);
    let k: usize = kani::any();
    kani::assume(k < 8);
    let inv: bool = kani::any();
    let on_feat: bool = kani::any();
    let mut feats = [None; 26];
    let mut nodes = [None; 8];
    if on_feat { feats[i] = Some(ModKind::Alpha(if inv { AlphaMod::InvAlpha('α') } else { AlphaMod::Alpha('α') })); }
    else { nodes[k] = Some(ModKind::Alpha(AlphaMod::Alpha('α'))); }
    let empty = new_alphas();
    let mut t = o;
    let r2 = t.apply_seg_mods(&empty, nodes, feats, pos0(), false);
    assert!(matches!(r2, Err(RuleRuntimeError::AlphaUnknown(_))), "A2: unbound alpha in the output is AlphaUnknown");
    assert!(t == o);
}

//% props=C04,C07,C08 tier=quick kind=P timeout=1200 pair=Segment::apply_seg_mods clause="A2: node / place alphas copy the captured node(s); documented errors otherwise"
#[kani::proof]
#[kani::unwind(28)]
fn k3_apply_alpha_node() {
    let o = any_wf_segment();
    let k: usize = kani::any();
    kani::assume(k < 8);
    let node = NodeKind::from_usize(k);
    let a = any_alpha_value();
    if let Alpha::Node(n, v) = &a { if *n == NodeKind::Root || *n == NodeKind::Laryngeal { kani::assume(v.unwrap() <= 7); } }
    let alphas = new_alphas();
    alphas.borrow_mut().insert('β', a.clone());
    let mut nodes = [None; 8];
    nodes[k] = Some(ModKind::Alpha(AlphaMod::Alpha('β')));
    let mut s = o;
    let r = s.apply_seg_mods(&alphas, nodes, [None; 26], pos0(), false);
    let ov = view7(&o);
    let nv = view7(&s);
    match &a {
        Alpha::Node(n, v) => {
            if *n == node {
                assert!(r.is_ok());
                let mut j = 0;
                while j < 7 { assert!(nv[j] == if j == slot(node) { *v } else { ov[j] }, "node alpha copies exactly that node"); j += 1; }
            } else {
                assert!(matches!(r, Err(RuleRuntimeError::AlphaIsNotSameNode(_))));
                assert!(s == o);
            }
        }
        Alpha::Place(pm) => {
            let want = [pm.lab, pm.cor, pm.dor, pm.phr];
            if k < 3 {
                assert!(matches!(r, Err(RuleRuntimeError::NodeCannotBeSet(..))));
                assert!(s == o);
            } else {
                assert!(r.is_ok());
                assert!(nv[0] == ov[0] && nv[1] == ov[1] && nv[2] == ov[2], "place alpha leaves the major nodes alone");
                let mut j = 0;
                while j < 4 {
                    let copied = k == 3 || k == 4 + j;
                    assert!(nv[3 + j] == if copied { want[j] } else { ov[3 + j] }, "place alpha copies all four sub-nodes (or the one named)");
                    j += 1;
                }
            }
        }
        _ => { assert!(matches!(r, Err(RuleRuntimeError::AlphaIsNotNode(_)))); assert!(s == o); }
    }
    if r.is_ok() { assert!(wf_seg(&s), "wf preserved by alpha application"); }
    // inverse alpha on a node is refused
    let mut inv = [None; 8];
    inv[k] = Some(ModKind::Alpha(AlphaMod::InvAlpha('β')));
    let mut t = o;
    assert!(matches!(t.apply_seg_mods(&alphas, inv, [None; 26], pos0(), false), Err(RuleRuntimeError::AlphaNodeAssignInv(_))));
    assert!(t == o);
}

//% props=C04,C08 tier=quick kind=P pair=Segment::match_modifiers,Segment::apply_diacritic_payload,Segment::check_and_apply_diacritic,Segment::as_modifiers clause="diacritic-side copies of match / apply agree with the same spec"
#[kani::proof]
#[kani::unwind(28)]
fn k3_diacritic_side() {
    let o = any_wf_segment();
    let mut dm = DiaMods::new();
    let mut nodes = any_bin_nodes();
    nodes[0] = None; nodes[1] = None; nodes[2] = None; nodes[3] = None; // payloads never name major nodes or Place (debug_assert in the code)
    dm.nodes = nodes;
    dm.feats = any_bin_feats();
    // match: true iff every named feature / node has the named value; absent node matches neither
    let got = o.match_modifiers(&dm).is_ok();
    let ov = view7(&o);
    let mut want = true;
    let mut i = 0;
    while i < 26 {
        let (n, m) = MASK_TABLE[i];
        let v = ov[slot(n)];
        if dm.feats[i] == POS { want = want && v.is_some() && v.unwrap() & m == m }
        if dm.feats[i] == NEG { want = want && v.is_some() && v.unwrap() & m == 0 }
        i += 1;
    }
    let mut k = 4;
    while k < 8 {
        if dm.nodes[k] == POS { want = want && ov[k - 1].is_some() }
        if dm.nodes[k] == NEG { want = want && ov[k - 1].is_none() }
        k += 1;
    }
    assert!(got == want, "M1 (diacritic copy): matrix matches iff every named feature/node has the named value");
    // apply: same whole-view spec as apply_seg_mods
    let mut s = o;
    s.apply_diacritic_payload(&dm);
    let exp = expected(&o, &dm.nodes, &dm.feats);
    let gv = view7(&s);
    let mut j = 0;
    // (a payload's +node re-creates the node empty, unlike a rule matrix which preserves a present node: not compared)
    while j < 7 { if !exp.contradictory[j] && !(j >= 3 && dm.nodes[j + 1] == POS) { assert!(gv[j] == exp.view[j], "payload application = matrix application"); } j += 1; }
    assert!(wf_seg(&s), "wf preserved by diacritic payloads");
    // as_modifiers describes the segment exactly: it matches itself
    let am = o.as_modifiers();
    let mut dm2 = DiaMods::new();
    dm2.feats = am.feats;
    let mut q = 4;
    while q < 8 { dm2.nodes[q] = am.nodes[q]; q += 1; }
    assert!(o.match_modifiers(&dm2).is_ok(), "a segment matches its own as_modifiers()");
    assert!(am.nodes[3] == if o.place.raw_for_verif().is_some() { POS } else { NEG });
}

// ---- discharges (for the real, compiled derive expansions) the "derive(PartialEq) is structural" assumptions
// ---- that the Verus kernels make for NodeKind and Segment (Verus does not look inside derive expansions)
//% props=C18,C04,C05,C08,C02 tier=quick kind=P covers=assumed.derive_eq pair=<NodeKind as PartialEq>::eq,<Segment as PartialEq>::eq clause="derived == on NodeKind and Segment is structural equality"
#[kani::proof]
#[kani::unwind(9)]
fn k0_derived_eq_is_structural() {
    let a = any_segment();
    let b = any_segment();
    assert!((a == b) == (a.root == b.root && a.manner == b.manner && a.laryngeal == b.laryngeal && a.place.raw_for_verif() == b.place.raw_for_verif()), "Segment == is field-wise");
    let i: usize = kani::any();
    let j: usize = kani::any();
    kani::assume(i < 8 && j < 8);
    assert!((NodeKind::from_usize(i) == NodeKind::from_usize(j)) == (i == j), "NodeKind == is variant identity");
}

//% props=C04,C18 tier=quick kind=P covers=mask_table.* clause="the documented feature table is a partition of each node's bits into single-bit features"
#[kani::proof]
#[kani::unwind(28)]
fn k2_mask_table_partition() {
    let mut union = [0u8; 7];
    let mut i = 0;
    while i < 26 {
        let (n, m) = MASK_TABLE[i];
        assert!(m.count_ones() == 1, "single bit");
        assert!(m & !width(n) == 0, "inside the node's field");
        assert!(union[slot(n)] & m == 0, "disjoint from the features before it");
        union[slot(n)] |= m;
        i += 1;
    }
    let mut k = 0;
    while k < 7 { assert!(union[k] == width(NODES7[k]), "together they cover the node"); k += 1; }
}
