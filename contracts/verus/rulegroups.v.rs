//@ kernel rulegroups serves=C10,C11,C16,C02
//@ include driver.v.rs
//@ item src/lib.rs struct RuleGroup
//@ item src/lib.rs fn parse_rule_groups
//@ item src/lib.rs fn run
//@ item src/lib.rs fn run_trace_wasm

//@ pre
// ---- R6: the lexer and parser are opaque; each line's outcome is an arbitrary function of (text, group, line)
// (`Rule`, `Word`, `Error` and `ap` come from driver.v.rs)
#[verifier::external_body]
pub struct Transformation { _o: u8 }
#[verifier::external_body]
pub struct RuleSyntaxError { _o: u8 }
#[verifier::external_body]
pub struct Token { _o: u8 }
#[verifier::external_body]
pub struct Lexer<'a> { _o: &'a [char] }
#[verifier::external_body]
pub struct Parser { _o: u8 }

pub uninterp spec fn lex_of(lx: Lexer) -> (Seq<char>, int, int);
pub uninterp spec fn lex_spec(text: Seq<char>, g: int, l: int) -> Result<Seq<Token>, RuleSyntaxError>;
pub uninterp spec fn parser_of(p: Parser) -> (Seq<Token>, int, int);
pub uninterp spec fn parse_spec(toks: Seq<Token>, g: int, l: int) -> Result<Option<Rule>, RuleSyntaxError>;

impl<'a> Lexer<'a> {
    #[verifier::external_body]
    pub(crate) fn new(source: &'a [char], group: usize, line: usize) -> (r: Self)
        ensures lex_of(r) == (source@, group as int, line as int),
    { unimplemented!() }
    #[verifier::external_body]
    pub(crate) fn get_line(&mut self) -> (r: Result<Vec<Token>, RuleSyntaxError>)
        ensures (match lex_spec(lex_of(*old(self)).0, lex_of(*old(self)).1, lex_of(*old(self)).2) { Ok(t) => r is Ok && r->Ok_0@ == t, Err(e) => r == Err::<Vec<Token>, RuleSyntaxError>(e) }),
    { unimplemented!() }
}
impl Parser {
    #[verifier::external_body]
    pub(crate) fn new(token_list: Vec<Token>, group: usize, line: usize) -> (r: Self)
        ensures parser_of(r) == (token_list@, group as int, line as int),
    { unimplemented!() }
    #[verifier::external_body]
    pub(crate) fn parse(&mut self) -> (r: Result<Option<Rule>, RuleSyntaxError>)
        ensures r == parse_spec(parser_of(*old(self)).0, parser_of(*old(self)).1, parser_of(*old(self)).2),
    { unimplemented!() }
}

// ---- R6: the other three stages of `run` are arbitrary functions of their arguments
pub uninterp spec fn aliases_spec(into: Seq<String>, from: Seq<String>) -> Result<(Vec<Transformation>, Vec<Transformation>), Error>;
pub uninterp spec fn phrases_spec(unparsed: Seq<String>, alias_into: Seq<Transformation>) -> Result<Vec<Phrase>, Error>;
pub uninterp spec fn render_spec(phrases: Seq<Seq<Word>>, alias_from: Seq<Transformation>) -> Vec<String>;
pub uninterp spec fn err_syn(e: RuleSyntaxError) -> Error;
impl vstd::std_specs::convert::FromSpecImpl<RuleSyntaxError> for Error {
    open spec fn obeys_from_spec() -> bool { true }
    open spec fn from_spec(e: RuleSyntaxError) -> Error { err_syn(e) }
}
impl From<RuleSyntaxError> for Error {
    #[verifier::external_body]
    fn from(e: RuleSyntaxError) -> (r: Self) ensures r == err_syn(e) { unimplemented!() }
}
#[verifier::external_body]
fn parse_aliases(into: &[String], from: &[String]) -> (r: Result<(Vec<Transformation>, Vec<Transformation>), Error>)
    ensures r == aliases_spec(into@, from@),
{ unimplemented!() }
#[verifier::external_body]
fn parse_phrases(unparsed_phrases: &[String], alias_into: &[Transformation]) -> (r: Result<Vec<Phrase>, Error>)
    ensures r == phrases_spec(unparsed_phrases@, alias_into@),
{ unimplemented!() }
#[verifier::external_body]
fn phrases_to_string(phrases: Vec<Phrase>, alias_from: Vec<Transformation>) -> (r: Vec<String>)
    ensures r == render_spec(phrases_view(phrases@), alias_from@),
{ unimplemented!() }
pub open spec fn phrases_view(ps: Seq<Phrase>) -> Seq<Seq<Word>> { Seq::new(ps.len(), |i: int| pv(ps[i])) }
//@ end
//@ post
/// what one line of one group contributes: lexing then parsing, first error wins
pub open spec fn line_result(text: Seq<char>, g: int, l: int) -> Result<Option<Rule>, RuleSyntaxError> {
    match lex_spec(text, g, l) { Ok(t) => parse_spec(t, g, l), Err(e) => Err(e) }
}
pub closed spec fn lines_of(rg: RuleGroup) -> Seq<String> { rg.rule@ }
/// the rules of the first k lines of group g, in order; lines that parse to no rule (blank, comment) are skipped
pub open spec fn group_rules(lines: Seq<String>, g: int, k: int) -> Seq<Rule>
    decreases k
{
    if k <= 0 { Seq::empty() } else {
        let prev = group_rules(lines, g, k - 1);
        match line_result(lines[k - 1]@, g, k - 1) { Ok(Some(r)) => prev.push(r), _ => prev }
    }
}
/// typed views (the two accumulators are declared without a type in the source; a typed spec parameter fixes it for the invariants)
pub open spec fn groups_view(v: Vec<Vec<Rule>>) -> Seq<Vec<Rule>> { v@ }
pub open spec fn rules_view(v: Vec<Rule>) -> Seq<Rule> { v@ }
pub open spec fn lines_ok(lines: Seq<String>, g: int, k: int) -> bool {
    forall|l: int| 0 <= l < k ==> (#[trigger] line_result(lines[l]@, g, l)) is Ok
}
//@ end

//@ attr parse_rule_groups
#[verifier::loop_isolation(false)]
//@ end
//@ contract parse_rule_groups ret=r
    ensures
        /*#rulegroups.one_list_per_group_skipping_empty_lines C10*/ r matches Ok(v) ==> (
            v@.len() == unparsed_rule_groups@.len()
            && forall|g: int| 0 <= g < v@.len() ==> (#[trigger] v@[g])@ == group_rules(lines_of(unparsed_rule_groups@[g]), g, lines_of(unparsed_rule_groups@[g]).len() as int)),
        /*#rulegroups.ok_iff_every_line_ok C10*/ r is Ok <==> (forall|g: int| 0 <= g < unparsed_rule_groups@.len() ==> lines_ok(lines_of(#[trigger] unparsed_rule_groups@[g]), g, lines_of(unparsed_rule_groups@[g]).len() as int)),
//@ end
//@ loop parse_rule_groups 0 iter=it0
    invariant
        rgi == it0.index@, groups_view(rule_groups).len() == rgi,
        /*#rulegroups.inv.done_groups_are_their_lines_rules C10*/ forall|g: int| 0 <= g < rgi ==> (#[trigger] groups_view(rule_groups)[g])@ == group_rules(lines_of(unparsed_rule_groups@[g]), g, lines_of(unparsed_rule_groups@[g]).len() as int),
        forall|g: int| 0 <= g < rgi ==> lines_ok(lines_of(#[trigger] unparsed_rule_groups@[g]), g, lines_of(unparsed_rule_groups@[g]).len() as int),
//@ end
//@ loop parse_rule_groups 1 iter=it1
    invariant
        ri == it1.index@, rgi < unparsed_rule_groups@.len(), *rg == unparsed_rule_groups@[rgi as int],
        /*#rulegroups.inv.group_so_far_is_rules_of_lines_so_far C10*/ rules_view(rule_group) == group_rules(lines_of(*rg), rgi as int, ri as int),
        lines_ok(lines_of(*rg), rgi as int, ri as int),
//@ end

//@ loop_proof_start parse_rule_groups 1
    // name the line's outcome so that an early `?` exit can point at the offending (group, line)
    let cur = line_result(lines_of(*rg)[ri as int]@, rgi as int, ri as int);
    assert(cur is Ok || !(cur is Ok));
//@ end

// =================================================================== run
//@ post
/// every rule of every group, in reading order (blank / comment lines contribute nothing)
pub open spec fn all_rules(gs: Seq<RuleGroup>, k: int) -> Seq<Rule>
    decreases k
{
    if k <= 0 { Seq::empty() } else { all_rules(gs, k - 1) + group_rules(lines_of(gs[k - 1]), k - 1, lines_of(gs[k - 1]).len() as int) }
}
pub open spec fn all_lines_ok(gs: Seq<RuleGroup>) -> bool {
    forall|g: int| 0 <= g < gs.len() ==> lines_ok(lines_of(#[trigger] gs[g]), g, lines_of(gs[g]).len() as int)
}
/// the expected output words: each input word folded through the flat rule list
pub open spec fn run_words(rs: Seq<Rule>, ps: Seq<Seq<Word>>) -> Seq<Seq<Word>> {
    Seq::new(ps.len(), |i: int| Seq::new(ps[i].len(), |j: int| ok_or(fold_rules(rs, ps[i][j]), ps[i][j])))
}
proof fn lemma_flatten_is_all_rules(v: Seq<Vec<Rule>>, gs: Seq<RuleGroup>, k: int)
    requires 0 <= k <= v.len(), v.len() == gs.len(),
        forall|g: int| 0 <= g < v.len() ==> (#[trigger] v[g])@ == group_rules(lines_of(gs[g]), g, lines_of(gs[g]).len() as int),
    ensures flatten(v.take(k)) == all_rules(gs, k)
    decreases k
{
    if k > 0 {
        lemma_flatten_is_all_rules(v, gs, k - 1);
        assert(v.take(k).drop_last() =~= v.take(k - 1));
        assert(v.take(k).last() == v[k - 1]);
    } else {
        assert(v.take(0) =~= Seq::<Vec<Rule>>::empty());
    }
}
//@ end
//@ contract run ret=r
    ensures
        /*#run.output_is_fold_of_the_flat_rule_list C10,C11*/ r matches Ok(out) ==> (
            aliases_spec(alias_into@, alias_from@) matches Ok(al)
            && phrases_spec(unparsed_phrases@, al.0@) matches Ok(ph)
            && all_lines_ok(unparsed_rules@)
            && (forall|i: int, j: int| 0 <= i < ph@.len() && 0 <= j < pv(ph@[i]).len()
                    ==> (#[trigger] fold_rules(all_rules(unparsed_rules@, unparsed_rules@.len() as int), pv(ph@[i])[j])) is Ok)
            && out == render_spec(run_words(all_rules(unparsed_rules@, unparsed_rules@.len() as int), phrases_view(ph@)), al.1@)),
        /*#run.errors_are_reported C11*/ (aliases_spec(alias_into@, alias_from@) is Err || !all_lines_ok(unparsed_rules@)) ==> r is Err,
//@ end
//@ proof_before_tail run
    lemma_flatten_is_all_rules(rules@, unparsed_rules@, rules@.len() as int);
    assert(rules@.take(rules@.len() as int) =~= rules@);
    assert forall|i: int, j: int| 0 <= i < phrases@.len() && 0 <= j < pv(phrases@[i]).len()
        implies fold_rules(all_rules(unparsed_rules@, unparsed_rules@.len() as int), pv(phrases@[i])[j]) == Ok::<Word, Error>(pv(res@[i])[j]) by {
        law_regrouping(rules@, pv(phrases@[i])[j]);
    }
    let rs = all_rules(unparsed_rules@, unparsed_rules@.len() as int);
    let a = phrases_view(res@);
    let b = run_words(rs, phrases_view(phrases@));
    assert(a.len() == b.len());
    assert forall|i: int| 0 <= i < a.len() implies #[trigger] a[i] =~= b[i] by {
        assert(pv(res@[i]).len() == pv(phrases@[i]).len());
        assert forall|j: int| 0 <= j < a[i].len() implies a[i][j] == b[i][j] by {
            assert(fold_rules(rs, pv(phrases@[i])[j]) == Ok::<Word, Error>(pv(res@[i])[j]));
        }
    }
    assert(a =~= b);
//@ end

// =================================================================== run_trace_wasm (the traced entry point of the web UI)
//@ pre
pub uninterp spec fn trace_phrase_spec(unparsed: Seq<String>, alias_into: Seq<Transformation>, trace_index: usize) -> Result<Option<Phrase>, Error>;
pub uninterp spec fn trace_render_spec(original: Phrase, changes: Seq<Change>, rules: Seq<RuleGroup>) -> Vec<String>;
#[verifier::external_body]
fn get_trace_phrase(unparsed_phrases: &[String], alias_into: &[Transformation], trace_index: usize) -> (r: Result<Option<Phrase>, Error>)
    ensures r == trace_phrase_spec(unparsed_phrases@, alias_into@, trace_index),
{ unimplemented!() }
/// R6 stub WITH the precondition its body needs: the only index expression in trace_to_string is
/// `rules[change.rule_index].name` (src/lib.rs), so every reported index must name an existing group
#[verifier::external_body]
fn trace_to_string(original: &Phrase, changes: Vec<Change>, rules: &[RuleGroup]) -> (r: Vec<String>)
    requires /*#trace.reported_index_names_an_existing_group C16*/ forall|m: int| 0 <= m < changes@.len() ==> (#[trigger] changes@[m]).rule_index < rules@.len(),
    ensures r == trace_render_spec(*original, changes@, rules@),
{ unimplemented!() }
//@ end
//@ contract run_trace_wasm ret=r
    ensures
        /*#trace.api_errors_are_reported C16*/ (aliases_spec(alias_into@, alias_from@) is Err || !all_lines_ok(unparsed_rules@)) ==> r is Err,
        r is Ok ==> all_lines_ok(unparsed_rules@),
//@ end
//@ proof_before_tail run_trace_wasm
    law_trace_indices_increasing(rules@, pv(phrase), rules@.len() as int);
    assert(rules@.len() == unparsed_rules@.len());
    assert forall|m: int| 0 <= m < res@.len() implies (#[trigger] res@[m]).rule_index < unparsed_rules@.len() by {
        reveal(changes_match);
        let t = trace_spec(rules@, pv(phrase), rules@.len() as int);
        assert(res@[m].rule_index as int == t[m].0);
    }
//@ end
