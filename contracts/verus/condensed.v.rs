//@ kernel condensed serves=C12,C02
//@ item src/place.rs struct Place
//@ item src/seg.rs enum NodeKind
//@ item src/seg.rs struct Segment
//@ item src/lexer.rs struct Position
//@ item src/lexer.rs enum NodeType
//@ item src/lexer.rs enum SupraType
//@ item src/lexer.rs enum FType
//@ item src/lexer.rs enum FeatType
//@ item src/lexer.rs enum TokenKind
//@ item src/lexer.rs struct Token
//@ item src/lexer.rs impl NodeType members=count
//@ item src/lexer.rs impl FType members=count
//@ item src/parser.rs enum BinMod
//@ item src/parser.rs enum AlphaMod
//@ item src/parser.rs enum ModKind
//@ item src/parser.rs struct SupraSegs
//@ item src/parser.rs struct Modifiers
//@ item src/parser.rs struct Env noderive
//@ item src/parser.rs enum ParseElement noderive
//@ item src/parser.rs struct Item noderive
//@ item src/syll.rs enum StressKind
//@ item src/syll.rs type Tone
//@ item src/syll.rs struct Syllable
//@ item src/rule.rs enum RuleType
//@ item src/rule.rs struct PlaceMod
//@ item src/rule.rs enum Alpha
//@ item src/subrule.rs enum VarKind
//@ item src/subrule.rs struct SubRule
//@ item src/error/syntax.rs enum RuleSyntaxError
//@ item src/rule.rs struct Rule
//@ item src/error/runtime.rs enum RuleRuntimeError
//@ item src/error/syntax.rs impl From<RuleSyntaxError> for Error members=from as=ErrFromSyn
//@ item src/error/runtime.rs impl From<RuleRuntimeError> for Error members=from as=ErrFromRun
//@ item src/subrule.rs impl SubRule members=apply
//@ item src/rule.rs impl Rule members=split_into_subrules,apply

//@ pre
use std::cell::RefCell;
use std::rc::Rc;
use std::cmp::max;
use vstd::std_specs::cmp::*;
use std::collections::{HashMap, VecDeque};
type GroupNum = usize;
type LineNum = usize;
type Pos = usize;

// ---- opaque types the condensed-rule loop is generic in (as in the `driver` kernel)
#[verifier::external_body]
pub struct Word { _opaque: u8 }
#[verifier::external_body]
pub struct Error { _opaque: u8 }
/// SubRule::apply clears its binding tables before every match attempt (subrule.rs:96-97), so its result
/// is a function of the five rule fields and the word -- ASSUMED (uninterpreted)
pub uninterp spec fn sap(input: Seq<Item>, output: Seq<Item>, context: Option<Item>, except: Option<Item>, rt: RuleType, w: Word) -> Result<Word, RuleRuntimeError>;
pub uninterp spec fn err_syn(e: RuleSyntaxError) -> Error;
pub uninterp spec fn err_run(e: RuleRuntimeError) -> Error;

#[verifier::external_type_specification]
#[verifier::external_body]
#[verifier::reject_recursive_types(T)]
pub struct ExRefCell<T: ?Sized>(RefCell<T>);
pub assume_specification<T>[ RefCell::<T>::new ](v: T) -> RefCell<T>;
// std::cmp::max on a totally ordered type returns the larger argument (trusted std contract)
pub assume_specification<T: Ord>[ std::cmp::max::<T> ](a: T, b: T) -> (r: T)
    ensures r == (if a.cmp_spec(&b) == core::cmp::Ordering::Greater { a } else { b });
//@ end
//@ post
// The three mutually recursive parse-tree types lose their derive lists (Verus rejects the cyclic
// derive expansions); derive(Clone) is re-declared as "clone returns an equal value" -- ASSUMED.
impl Clone for Item {
    #[verifier::external_body]
    fn clone(&self) -> (r: Self) ensures r == *self { unimplemented!() }
}

// ---------------- C12(a): a condensed rule is split into max(|I|,|O|,|C|,|E|) sub-rules, singleton lists broadcast
pub open spec fn max2(a: int, b: int) -> int { if a > b { a } else { b } }
pub closed spec fn n_sub(r: Rule) -> int {
    max2(r.input@.len() as int, max2(r.output@.len() as int, max2(r.context@.len() as int, r.except@.len() as int)))
}
/// a list is balanced if it has one entry per sub-rule, or a single entry that is broadcast (environments may also be absent)
pub closed spec fn unbalanced(r: Rule) -> bool {
    ||| (r.input@.len() != n_sub(r) && r.input@.len() != 1)
    ||| (r.output@.len() != n_sub(r) && r.output@.len() != 1)
    ||| (r.context@.len() != n_sub(r) && r.context@.len() != 1 && r.context@.len() != 0)
    ||| (r.except@.len() != n_sub(r) && r.except@.len() != 1 && r.except@.len() != 0)
}
pub closed spec fn pick_io(xs: Seq<Vec<Item>>, i: int) -> Seq<Item> { if xs.len() == 1 { xs[0]@ } else { xs[i]@ } }
pub closed spec fn pick_env(xs: Seq<Item>, i: int) -> Option<Item> { if xs.len() == 0 { None } else if xs.len() == 1 { Some(xs[0]) } else { Some(xs[i]) } }
/// the parser never produces an empty input or output list inside a rule (EmptyInput / EmptyOutput errors)
pub closed spec fn io_nonempty(r: Rule) -> bool {
    (forall|k: int| 0 <= k < r.input@.len() ==> (#[trigger] r.input@[k])@.len() >= 1)
    && (forall|k: int| 0 <= k < r.output@.len() ==> (#[trigger] r.output@[k])@.len() >= 1)
}
pub closed spec fn classify(i0: ParseElement, o0: ParseElement) -> Option<RuleType> {
    if i0 is EmptySet && (o0 is EmptySet || o0 is Metathesis) { None }
    else if i0 is EmptySet { Some(RuleType::Insertion) }
    else if o0 is EmptySet { Some(RuleType::Deletion) }
    else if o0 is Metathesis { Some(RuleType::Metathesis) }
    else { Some(RuleType::Substitution) }
}
pub closed spec fn sub_ok(r: Rule, sr: SubRule, i: int) -> bool {
    &&& sr.input@ =~= pick_io(r.input@, i)
    &&& sr.output@ =~= pick_io(r.output@, i)
    &&& sr.context == pick_env(r.context@, i)
    &&& sr.except == pick_env(r.except@, i)
    &&& Some(sr.rule_type) == classify(pick_io(r.input@, i)[0].kind, pick_io(r.output@, i)[0].kind)
}

// how `?` converts the two error types (vstd's FromSpec protocol); the conversions themselves are
// the one-line `From` impls in src/error/{syntax,runtime}.rs, declared as R6 stubs
impl vstd::std_specs::convert::FromSpecImpl<RuleRuntimeError> for Error {
    open spec fn obeys_from_spec() -> bool { true }
    open spec fn from_spec(e: RuleRuntimeError) -> Error { err_run(e) }
}
impl vstd::std_specs::convert::FromSpecImpl<RuleSyntaxError> for Error {
    open spec fn obeys_from_spec() -> bool { true }
    open spec fn from_spec(e: RuleSyntaxError) -> Error { err_syn(e) }
}

/// the i-th sub-rule of a condensed rule applied to a word
pub closed spec fn sub_apply(r: Rule, i: int, w: Word) -> Result<Word, RuleRuntimeError> {
    sap(pick_io(r.input@, i), pick_io(r.output@, i), pick_env(r.context@, i), pick_env(r.except@, i),
        classify(pick_io(r.input@, i)[0].kind, pick_io(r.output@, i)[0].kind)->Some_0, w)
}
/// sub-rules 0..k applied one after another, first error wins
pub closed spec fn fold_sub(r: Rule, k: int, w: Word) -> Result<Word, Error>
    decreases k
{
    if k <= 0 { Ok(w) } else {
        match fold_sub(r, k - 1, w) {
            Ok(w2) => match sub_apply(r, k - 1, w2) { Ok(w3) => Ok(w3), Err(e) => Err(err_run(e)) },
            Err(e) => Err(e),
        }
    }
}
pub closed spec fn well_typed(r: Rule) -> bool {
    forall|i: int| 0 <= i < n_sub(r) ==> (#[trigger] classify(pick_io(r.input@, i)[0].kind, pick_io(r.output@, i)[0].kind)).is_some()
}
proof fn lemma_fold_sub_err_prefix(r: Rule, k: int, n: int, w: Word)
    requires 0 <= k <= n, fold_sub(r, k, w) is Err
    ensures fold_sub(r, n, w) == fold_sub(r, k, w)
    decreases n - k
{
    if k < n { lemma_fold_sub_err_prefix(r, k + 1, n, w); }
}
//@ end

//@ attr Rule::split_into_subrules
#[verifier::loop_isolation(false)]
//@ end
//@ contract Rule::split_into_subrules ret=r
    requires /*#split.io_lists_nonempty C02*/ io_nonempty(*self),
    ensures
        /*#split.unbalanced_is_an_error C12*/ unbalanced(*self) ==> r is Err,
        /*#split.one_subrule_per_entry_singletons_broadcast C12*/ r matches Ok(v) ==> (
            !unbalanced(*self) && v@.len() == n_sub(*self)
            && forall|i: int| 0 <= i < v@.len() ==> sub_ok(*self, #[trigger] v@[i], i)),
        /*#split.errors_only_when_documented C12*/ (!unbalanced(*self)
            && forall|i: int| 0 <= i < n_sub(*self) ==> (#[trigger] classify(pick_io(self.input@, i)[0].kind, pick_io(self.output@, i)[0].kind)).is_some()) ==> r is Ok,
//@ end
//@ loop Rule::split_into_subrules 0 iter=it0
    invariant
        max as int == n_sub(*self), !unbalanced(*self),
        sub_vec@.len() == i,
        forall|k: int| 0 <= k < i ==> sub_ok(*self, #[trigger] sub_vec@[k], k),
//@ end

//@ loop_proof_start Rule::split_into_subrules 0
    let c = classify(pick_io(self.input@, i as int)[0].kind, pick_io(self.output@, i as int)[0].kind);
    assert(c.is_some() || c.is_none());
//@ end

//@ stub ErrFromSyn::from
//@ contract ErrFromSyn::from ret=r
    ensures r == err_syn(e),
//@ end
//@ stub ErrFromRun::from
//@ contract ErrFromRun::from ret=r
    ensures r == err_run(e),
//@ end
//@ stub SubRule::apply
//@ contract SubRule::apply ret=r
    ensures /*#assumed.subrule_apply_is_a_function C12*/ r == sap(self.input@, self.output@, self.context, self.except, self.rule_type, word),
//@ end

//@ attr Rule::apply
#[verifier::loop_isolation(false)]
//@ end
//@ contract Rule::apply ret=r
    requires /*#rule_apply.io_lists_nonempty C02*/ io_nonempty(*self),
    ensures
        /*#rule_apply.unbalanced_is_an_error C12*/ unbalanced(*self) ==> r is Err,
        // (Verus does not expose the `From` conversion performed by `?`, so on failure only "is Err" is stated;
        //  fold_sub is Err exactly when some sub-rule fails, the first one deciding)
        /*#rule_apply.condensed_rule_is_its_subrules_in_order C12*/ (!unbalanced(*self) && well_typed(*self)) ==> (
            match fold_sub(*self, n_sub(*self), word) { Ok(w) => r == Ok::<Word, Error>(w), Err(_) => r is Err }),
//@ end
//@ loop Rule::apply 0 iter=it0
    invariant
        !unbalanced(*self), well_typed(*self) ==> true,
        it0.seq().len() == n_sub(*self),
        forall|k: int| 0 <= k < it0.seq().len() ==> sub_ok(*self, #[trigger] it0.seq()[k], k),
        fold_sub(*self, it0.index@, word) == Ok::<Word, Error>(res_word),
//@ end
//@ loop_proof_start Rule::apply 0
    let k = it0.index@;
    assert(sub_ok(*self, it0.seq()[k], k));
    assert(i == it0.seq()[k]);
    assert(i.input@ == pick_io(self.input@, k));
    assert(i.output@ == pick_io(self.output@, k));
    assert(sap(i.input@, i.output@, i.context, i.except, i.rule_type, res_word) == sub_apply(*self, k, res_word)) by {
        assert(classify(pick_io(self.input@, k)[0].kind, pick_io(self.output@, k)[0].kind) == Some(i.rule_type));
    }
    if sub_apply(*self, k, res_word) is Err {
        lemma_fold_sub_err_prefix(*self, k + 1, n_sub(*self), word);
    }
//@ end
