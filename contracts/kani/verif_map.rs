//! Association-list stand-in for `std::collections::HashMap`, used ONLY in Kani
//! builds of the scratch copy (see /verif/DESIGN.md 2.2).  hashbrown's probing
//! and `RandomState::new` (getrandom) cannot be executed symbolically by CBMC.
//! Same signatures for the methods the crate uses on its binding tables:
//! new / get / insert / clear / clone / contains_key / remove / len / is_empty.
//! The crate never iterates these maps, so ordering is unobservable.
#[derive(Debug, Clone, Default)]
pub(crate) struct HashMap<K, V> {
    items: Vec<(K, V)>,
}

impl<K: PartialEq, V> HashMap<K, V> {
    pub(crate) fn new() -> Self { Self { items: Vec::new() } }

    pub(crate) fn get(&self, k: &K) -> Option<&V> {
        let mut i = 0;
        while i < self.items.len() {
            if self.items[i].0 == *k { return Some(&self.items[i].1) }
            i += 1;
        }
        None
    }

    pub(crate) fn insert(&mut self, k: K, v: V) -> Option<V> {
        let mut i = 0;
        while i < self.items.len() {
            if self.items[i].0 == k {
                return Some(core::mem::replace(&mut self.items[i].1, v))
            }
            i += 1;
        }
        self.items.push((k, v));
        None
    }

    #[allow(unused)]
    pub(crate) fn contains_key(&self, k: &K) -> bool { self.get(k).is_some() }

    #[allow(unused)]
    pub(crate) fn remove(&mut self, k: &K) -> Option<V> {
        let mut i = 0;
        while i < self.items.len() {
            if self.items[i].0 == *k { return Some(self.items.remove(i).1) }
            i += 1;
        }
        None
    }

    #[allow(unused)]
    pub(crate) fn clear(&mut self) { self.items.clear() }
    #[allow(unused)]
    pub(crate) fn len(&self) -> usize { self.items.len() }
    #[allow(unused)]
    pub(crate) fn is_empty(&self) -> bool { self.items.is_empty() }
}
