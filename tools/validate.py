#!/usr/bin/env python3
"""Validate MANIFEST.json and evidence/*.json against the schemas (needs jsonschema: run with python3-vt)."""
import json, sys, glob
import jsonschema
ok = True
m = json.load(open('/verif/MANIFEST.json'))
try:
    jsonschema.validate(m, json.load(open('/root/.vp/MANIFEST.schema.json'))); print('MANIFEST ok')
except Exception as e:
    ok = False; print('MANIFEST INVALID', str(e)[:500])
sch = json.load(open('/root/.vp/EVIDENCE.schema.json'))
for f in sorted(glob.glob('/verif/evidence/*.json')):
    try:
        jsonschema.validate(json.load(open(f)), sch); print(f, 'ok')
    except Exception as e:
        ok = False; print(f, 'INVALID', str(e)[:500])
ids = {json.loads(l)['id'] for l in open('/verif/properties.jsonl')}
claimed = {c['property_id'] for c in m['checks']}
na = {n['property_id'] for n in m.get('not_applicable', [])}
if claimed | na != ids or claimed & na:
    ok = False; print('property partition wrong: missing', ids - claimed - na, 'both', claimed & na)
sys.exit(0 if ok else 1)
