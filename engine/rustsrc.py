"""Minimal, comment/string-aware skimmer for Rust source text.

Only what the extractor needs: find items by name, match braces, split a
function item into (attrs, header, body), locate loops inside a body.  It never
re-prints code from a parse tree: every piece of code it hands out is a
verbatim slice of the input text, so "the verified text is the repository's
text" can be checked byte-for-byte.
"""
import re


class SkimError(Exception):
    pass


def mask(src: str) -> str:
    """Return a same-length string where the contents of comments, string
    literals and char literals are replaced by spaces (newlines kept), so that
    brace matching and keyword search can run on it with plain indexing."""
    out = list(src)
    i, n = 0, len(src)

    def blank(a, b):
        for k in range(a, b):
            if out[k] != '\n':
                out[k] = ' '

    while i < n:
        c = src[i]
        if src.startswith('//', i):
            j = src.find('\n', i)
            j = n if j < 0 else j
            blank(i, j)
            i = j
        elif src.startswith('/*', i):
            depth, j = 1, i + 2
            while j < n and depth:
                if src.startswith('/*', j):
                    depth += 1; j += 2
                elif src.startswith('*/', j):
                    depth -= 1; j += 2
                else:
                    j += 1
            blank(i, j)
            i = j
        elif c == '"' or (c in 'rb' and re.match(r'(b?r#*"|b")', src[i:i + 8]) and (i == 0 or not (src[i - 1].isalnum() or src[i - 1] == '_'))):
            m = re.match(r'b?r(#*)"', src[i:])
            if m:
                hashes = m.group(1)
                end = src.find('"' + hashes, i + m.end())
                if end < 0:
                    raise SkimError('unterminated raw string at %d' % i)
                j = end + 1 + len(hashes)
                blank(i + m.end(), end)
                i = j
            else:
                j = i + (2 if c == 'b' else 1)
                start = j
                while j < n and src[j] != '"':
                    j += 2 if src[j] == '\\' else 1
                blank(start, j)
                i = j + 1
        elif c == "'":
            # char literal or lifetime
            m = re.match(r"'(\\x[0-9a-fA-F]{2}|\\u\{[0-9a-fA-F_]+\}|\\.|[^\\'\n])'", src[i:])
            if m:
                blank(i + 1, i + m.end() - 1)
                i += m.end()
            else:
                i += 1
        else:
            i += 1
    return ''.join(out)


OPEN = {'{': '}', '(': ')', '[': ']'}
CLOSE = {v: k for k, v in OPEN.items()}


def match_close(msk: str, i: int) -> int:
    """msk[i] is an opening bracket; return index of its closing partner."""
    want = [OPEN[msk[i]]]
    j = i + 1
    n = len(msk)
    while j < n:
        ch = msk[j]
        if ch in OPEN:
            want.append(OPEN[ch])
        elif ch in CLOSE:
            if ch != want[-1]:
                raise SkimError('bracket mismatch at %d: %r vs %r' % (j, ch, want[-1]))
            want.pop()
            if not want:
                return j
        j += 1
    raise SkimError('unclosed bracket at %d' % i)


def line_of(src: str, idx: int) -> int:
    return src.count('\n', 0, idx) + 1


def _attr_start(src: str, msk: str, item_start: int) -> int:
    """Walk backwards from item_start over attributes (`#[...]`), doc comments
    and blank space; return the index where the item 'with its attributes'
    starts (beginning of a line)."""
    pos = item_start
    while True:
        # beginning of the current line
        ls = src.rfind('\n', 0, pos) + 1
        if src[ls:pos].strip():
            return pos  # something else on this line before the item
        pos = ls
        if pos == 0:
            return 0
        # previous line
        pls = src.rfind('\n', 0, pos - 1) + 1
        prev = src[pls:pos - 1].strip()
        if prev.startswith('#[') or prev.startswith('///') or prev.startswith('#!['):
            pos = pls
            continue
        # multi-line attribute ending in `]` or `)]`
        if prev.endswith(']') and not prev.startswith('//'):
            # find the '#[' that opens it
            k = msk.rfind('#[', 0, pos)
            if k >= 0:
                try:
                    if match_close(msk, k + 1) >= pls:
                        kls = src.rfind('\n', 0, k) + 1
                        if not src[kls:k].strip():
                            pos = kls
                            continue
                except SkimError:
                    pass
        return pos


class Item:
    def __init__(self, src, msk, start, head_start, body_open, end, path):
        self.src, self.msk = src, msk
        self.start = start            # incl. attributes / docs
        self.head_start = head_start  # first char of `pub`/`fn`/`struct`/...
        self.body_open = body_open    # index of `{` (or -1 for `;`-terminated)
        self.end = end                # one past the last char
        self.path = path

    @property
    def text(self):
        return self.src[self.start:self.end]

    @property
    def attrs(self):
        return self.src[self.start:self.head_start]

    @property
    def header(self):
        return self.src[self.head_start:self.body_open]

    @property
    def body(self):  # including both braces
        return self.src[self.body_open:self.end]

    @property
    def lines(self):
        return (line_of(self.src, self.head_start), line_of(self.src, self.end - 1))


_VIS = r'(?:pub(?:\s*\([^)]*\))?\s+)?'
_FNQ = r'(?:(?:const|async|unsafe|extern\s+"[^"]*")\s+)*'


def find_item(src: str, msk: str, kind: str, name: str, path: str, lo=0, hi=None) -> Item:
    """kind in struct|enum|fn|impl|type|const.  For impl, `name` is the text
    after `impl` up to the `{`, whitespace-normalised (e.g. 'Place',
    'PartialEq for Syllable')."""
    hi = len(src) if hi is None else hi
    if kind == 'impl':
        for m in re.finditer(r'(?m)^[ \t]*impl\b', msk[lo:hi]):
            s = lo + m.start() + (len(m.group(0)) - 4)
            b = msk.find('{', s)
            if b < 0:
                continue
            sig = ' '.join(src[s + 4:b].split())
            if sig == name:
                e = match_close(msk, b) + 1
                return Item(src, msk, _attr_start(src, msk, s), s, b, e, path)
        raise SkimError('impl %r not found in %s' % (name, path))
    if kind == 'fn':
        pat = r'(?m)^[ \t]*(' + _VIS + _FNQ + r'fn\s+' + re.escape(name) + r')\b'
    elif kind in ('struct', 'enum'):
        pat = r'(?m)^[ \t]*(' + _VIS + kind + r'\s+' + re.escape(name) + r')\b'
    elif kind == 'type':
        pat = r'(?m)^[ \t]*(' + _VIS + r'type\s+' + re.escape(name) + r')\b'
    elif kind == 'const':
        pat = r'(?m)^[ \t]*(' + _VIS + r'const\s+' + re.escape(name) + r')\b'
    else:
        raise SkimError('unknown kind ' + kind)
    ms = list(re.finditer(pat, msk[lo:hi]))
    if len(ms) != 1:
        raise SkimError('%s %r: %d candidates in %s' % (kind, name, len(ms), path))
    s = lo + ms[0].start(1)
    # the item ends at the first `;` or at the close of the first `{` found at
    # paren depth 0 after the name
    j = lo + ms[0].end(1)
    depth = 0
    while j < hi:
        ch = msk[j]
        if ch in '([':
            j = match_close(msk, j) + 1
            continue
        if ch == ';' and depth == 0:
            return Item(src, msk, _attr_start(src, msk, s), s, -1, j + 1, path)
        if ch == '{':
            e = match_close(msk, j) + 1
            return Item(src, msk, _attr_start(src, msk, s), s, j, e, path)
        j += 1
    raise SkimError('%s %r: no body in %s' % (kind, name, path))


def impl_members(item: Item):
    """Yield (kind, name, Item) for the fns / consts directly inside an impl."""
    src, msk = item.src, item.msk
    lo, hi = item.body_open + 1, item.end - 1
    j = lo
    out = []
    pat = re.compile(r'(' + _VIS + _FNQ + r'fn\s+([A-Za-z_][A-Za-z0-9_]*))\b|(' + _VIS + r'(const|type)\s+([A-Za-z_][A-Za-z0-9_]*))\b')
    while j < hi:
        ch = msk[j]
        if ch in OPEN:
            j = match_close(msk, j) + 1
            continue
        m = pat.match(msk, j)
        if m and (j == 0 or not (msk[j - 1].isalnum() or msk[j - 1] == '_')):
            if m.group(1):
                kind, name = 'fn', m.group(2)
            else:
                kind, name = m.group(4), m.group(5)
            s = j
            k = m.end()
            while k < hi:
                c2 = msk[k]
                if c2 in '([':
                    k = match_close(msk, k) + 1
                    continue
                if c2 == ';':
                    it = Item(src, msk, _attr_start(src, msk, s), s, -1, k + 1, item.path)
                    break
                if c2 == '{':
                    e = match_close(msk, k) + 1
                    it = Item(src, msk, _attr_start(src, msk, s), s, k, e, item.path)
                    break
                k += 1
            else:
                raise SkimError('member %s has no end' % name)
            out.append((kind, name, it))
            j = it.end
            continue
        j += 1
    return out


def find_loops(msk: str, lo: int, hi: int):
    """Return [(kw, kw_index, body_open_index)] for while/for/loop keywords in
    msk[lo:hi] in textual order (nested loops included)."""
    out = []
    for m in re.finditer(r'\b(while|for|loop)\b', msk[lo:hi]):
        s = lo + m.start()
        # `for` in `impl X for Y` / HRTB cannot occur inside a fn body we extract
        j = s + len(m.group(1))
        while j < hi:
            ch = msk[j]
            if ch in '([':
                j = match_close(msk, j) + 1
                continue
            if ch == '{':
                out.append((m.group(1), s, j))
                break
            j += 1
    return out


def split_top_commas(text: str):
    """Split `a, b, c` at commas not nested in brackets (text already free of
    string/comment tricks or masked by caller)."""
    parts, depth, cur = [], 0, []
    m = mask(text)
    for ch, mc in zip(text, m):
        if mc in OPEN:
            depth += 1
        elif mc in CLOSE:
            depth -= 1
        if mc == ',' and depth == 0:
            parts.append(''.join(cur)); cur = []
        else:
            cur.append(ch)
    parts.append(''.join(cur))
    return parts
