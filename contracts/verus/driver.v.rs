//@ kernel driver serves=C16,C11,C10,C02
//@ item src/lib.rs struct Phrase
//@ item src/lib.rs impl std::ops::Deref for Phrase
//@ item src/lib.rs impl std::ops::DerefMut for Phrase
//@ item src/lib.rs struct Change
//@ item src/lib.rs fn apply_rule_groups
//@ item src/lib.rs fn apply_rules_trace

//@ pre
// ---- R6 callees: the three types the driver loops are generic in, with ASSUMED contracts.
// `Rule::apply` is an arbitrary deterministic function `ap` of (rule, word): nothing below depends on
// what a rule does.  `Word::eq` is an arbitrary relation `weq` (the real one compares the syllable
// vectors and ignores the `americanist` flag).  Clones are equal to their originals (derive(Clone)).
#[verifier::external_body]
pub struct Word { _opaque: u8 }
#[verifier::external_body]
pub struct Rule { _opaque: u8 }
#[verifier::external_body]
pub struct Error { _opaque: u8 }

// std functions a small edit of the driver loops is likely to reach for (trusted std contracts; unused on the pinned tree)
pub assume_specification<T, E>[ Result::<T, E>::unwrap_or ](r: Result<T, E>, d: T) -> (o: T)
    ensures o == (match r { Ok(t) => t, Err(_) => d });

pub uninterp spec fn ap(r: Rule, w: Word) -> Result<Word, Error>;
pub uninterp spec fn weq(a: Word, b: Word) -> bool;

impl Rule {
    #[verifier::external_body]
    pub(crate) fn apply(&self, word: Word) -> (r: Result<Word, Error>)
        ensures /*#assumed.rule_apply_is_a_function C16,C11,C10*/ r == ap(*self, word),
    { unimplemented!() }
}
impl Clone for Word {
    #[verifier::external_body]
    fn clone(&self) -> (r: Self)
        ensures r == *self,
    { unimplemented!() }
}
impl PartialEq for Word {
    #[verifier::external_body]
    fn eq(&self, other: &Self) -> (r: bool)
        ensures r == weq(*self, *other),
    { unimplemented!() }
}
//@ end

//@ post
// derive(Clone) / derive(PartialEq) on `Phrase(Vec<Word>)`: element-wise (trusted)
pub assume_specification[ <Phrase as PartialEq>::eq ](a: &Phrase, b: &Phrase) -> (r: bool)
    ensures r == pseq_eq(pv(*a), pv(*b));

/// derive(Clone) on `Phrase(Vec<Word>)` yields an equal phrase -- ASSUMED (Verus verifies the derive
/// expansion but it carries no postcondition, and an assume_specification for it is rejected as duplicate)
#[verifier::external_body]
proof fn axiom_phrase_clone()
    ensures forall|a: Phrase, b: Phrase| #[trigger] cloned(a, b) ==> a == b,
        forall|a: &Phrase, b: Phrase| #[trigger] call_ensures(<Phrase as Clone>::clone, (a,), b) ==> *a == b,
{}

pub closed spec fn pv(p: Phrase) -> Seq<Word> { p.0@ }
pub open spec fn pseq_eq(a: Seq<Word>, b: Seq<Word>) -> bool {
    a.len() == b.len() && forall|j: int| 0 <= j < a.len() ==> weq(#[trigger] a[j], b[j])
}

// ---------------- the abstract run: left fold of `ap` with first-error propagation
pub open spec fn fold_rules(rs: Seq<Rule>, w: Word) -> Result<Word, Error>
    decreases rs.len()
{
    if rs.len() == 0 { Ok(w) } else {
        match fold_rules(rs.drop_last(), w) { Ok(w2) => ap(rs.last(), w2), Err(e) => Err(e) }
    }
}
pub open spec fn fold_groups(gs: Seq<Vec<Rule>>, w: Word) -> Result<Word, Error>
    decreases gs.len()
{
    if gs.len() == 0 { Ok(w) } else {
        match fold_groups(gs.drop_last(), w) { Ok(w2) => fold_rules(gs.last()@, w2), Err(e) => Err(e) }
    }
}
pub open spec fn flatten(gs: Seq<Vec<Rule>>) -> Seq<Rule>
    decreases gs.len()
{
    if gs.len() == 0 { Seq::empty() } else { flatten(gs.drop_last()) + gs.last()@ }
}

proof fn lemma_fold_rules_step(rs: Seq<Rule>, k: int, w: Word)
    requires 0 <= k < rs.len()
    ensures fold_rules(rs.take(k + 1), w) == (match fold_rules(rs.take(k), w) { Ok(w2) => ap(rs[k], w2), Err(e) => Err(e) })
{
    assert(rs.take(k + 1).drop_last() =~= rs.take(k));
}
proof fn lemma_fold_groups_step(gs: Seq<Vec<Rule>>, k: int, w: Word)
    requires 0 <= k < gs.len()
    ensures fold_groups(gs.take(k + 1), w) == (match fold_groups(gs.take(k), w) { Ok(w2) => fold_rules(gs[k]@, w2), Err(e) => Err(e) })
{
    assert(gs.take(k + 1).drop_last() =~= gs.take(k));
}
/// an error inside a prefix is the error of the whole fold (first error wins)
proof fn lemma_fold_rules_err_prefix(rs: Seq<Rule>, k: int, w: Word)
    requires 0 <= k <= rs.len(), fold_rules(rs.take(k), w) is Err
    ensures fold_rules(rs, w) == fold_rules(rs.take(k), w)
    decreases rs.len() - k
{
    if k < rs.len() {
        lemma_fold_rules_step(rs, k, w);
        lemma_fold_rules_err_prefix(rs, k + 1, w);
    } else {
        assert(rs.take(k) =~= rs);
    }
}
proof fn lemma_fold_groups_err_prefix(gs: Seq<Vec<Rule>>, k: int, w: Word)
    requires 0 <= k <= gs.len(), fold_groups(gs.take(k), w) is Err
    ensures fold_groups(gs, w) == fold_groups(gs.take(k), w)
    decreases gs.len() - k
{
    if k < gs.len() {
        lemma_fold_groups_step(gs, k, w);
        lemma_fold_groups_err_prefix(gs, k + 1, w);
    } else {
        assert(gs.take(k) =~= gs);
    }
}

// ---------------- C10: the result depends on the groups only through their concatenation
proof fn lemma_fold_rules_append(a: Seq<Rule>, b: Seq<Rule>, w: Word)
    ensures /*#law.fold_append C10*/ fold_rules(a + b, w) == (match fold_rules(a, w) { Ok(w2) => fold_rules(b, w2), Err(e) => Err(e) })
    decreases b.len()
{
    if b.len() == 0 {
        assert(a + b =~= a);
    } else {
        assert((a + b).drop_last() =~= a + b.drop_last());
        assert((a + b).last() == b.last());
        lemma_fold_rules_append(a, b.drop_last(), w);
    }
}
proof fn law_regrouping(gs: Seq<Vec<Rule>>, w: Word)
    ensures /*#law.regrouping_invariance C10*/ fold_groups(gs, w) == fold_rules(flatten(gs), w)
    decreases gs.len()
{
    if gs.len() > 0 {
        law_regrouping(gs.drop_last(), w);
        lemma_fold_rules_append(flatten(gs.drop_last()), gs.last()@, w);
    }
}
/// two groupings with the same concatenation (in particular: with empty groups added or removed) agree
proof fn law_same_flatten_same_result(g1: Seq<Vec<Rule>>, g2: Seq<Vec<Rule>>, w: Word)
    requires flatten(g1) == flatten(g2)
    ensures /*#law.same_concatenation_same_result C10*/ fold_groups(g1, w) == fold_groups(g2, w)
{
    law_regrouping(g1, w); law_regrouping(g2, w);
}
proof fn law_empty_group_is_identity(gs: Seq<Vec<Rule>>, e: Vec<Rule>, w: Word)
    requires e@.len() == 0
    ensures /*#law.empty_group_noop C10*/ fold_groups(gs.push(e), w) == fold_groups(gs, w)
{
    assert(gs.push(e).drop_last() =~= gs);
}
/// staging: running R1 then R2 == running R1 ++ R2 (at the level of parsed words; the text round trip is C09)
proof fn law_staging(g1: Seq<Vec<Rule>>, g2: Seq<Vec<Rule>>, w: Word)
    ensures /*#law.staging C10*/ fold_groups(g1 + g2, w) == (match fold_groups(g1, w) { Ok(w2) => fold_groups(g2, w2), Err(e) => Err(e) })
    decreases g2.len()
{
    if g2.len() == 0 {
        assert(g1 + g2 =~= g1);
    } else {
        assert((g1 + g2).drop_last() =~= g1 + g2.drop_last());
        assert((g1 + g2).last() == g2.last());
        law_staging(g1, g2.drop_last(), w);
    }
}

// ---------------- C16: the trace as a function of the abstract run
pub open spec fn ok_or(r: Result<Word, Error>, d: Word) -> Word { match r { Ok(w) => w, Err(_) => d } }
/// phrase after the first k groups (meaningful when every fold involved is Ok)
pub open spec fn state_at(gs: Seq<Vec<Rule>>, p: Seq<Word>, k: int) -> Seq<Word> {
    Seq::new(p.len(), |j: int| ok_or(fold_groups(gs.take(k), p[j]), p[j]))
}
pub open spec fn all_ok_upto(gs: Seq<Vec<Rule>>, p: Seq<Word>, k: int) -> bool {
    forall|j: int| 0 <= j < p.len() ==> (#[trigger] fold_groups(gs.take(k), p[j])) is Ok
}
pub open spec fn changed_at(gs: Seq<Vec<Rule>>, p: Seq<Word>, k: int) -> bool {
    !pseq_eq(state_at(gs, p, k + 1), state_at(gs, p, k))
}
/// exactly the groups that changed the phrase, in order, each with the phrase after it
pub open spec fn trace_spec(gs: Seq<Vec<Rule>>, p: Seq<Word>, k: int) -> Seq<(int, Seq<Word>)>
    decreases k
{
    if k <= 0 { Seq::empty() } else {
        let t = trace_spec(gs, p, k - 1);
        if changed_at(gs, p, k - 1) { t.push((k - 1, state_at(gs, p, k))) } else { t }
    }
}
pub closed spec fn changes_match(c: Seq<Change>, t: Seq<(int, Seq<Word>)>) -> bool {
    c.len() == t.len() && forall|m: int| 0 <= m < c.len() ==> (#[trigger] c[m]).rule_index as int == t[m].0 && pv(c[m].after) == t[m].1
}

proof fn law_trace_indices_increasing(gs: Seq<Vec<Rule>>, p: Seq<Word>, k: int)
    requires 0 <= k
    ensures /*#law.trace_indices_strictly_increasing C16*/
        forall|m: int| 0 <= m < trace_spec(gs, p, k).len() ==> 0 <= (#[trigger] trace_spec(gs, p, k)[m]).0 < k,
        forall|m: int, n: int| 0 <= m < n < trace_spec(gs, p, k).len() ==> trace_spec(gs, p, k)[m].0 < trace_spec(gs, p, k)[n].0,
        /*#law.reported_state_is_plain_run_of_prefix C16*/
        forall|m: int| 0 <= m < trace_spec(gs, p, k).len() ==> (#[trigger] trace_spec(gs, p, k)[m]).1 == state_at(gs, p, trace_spec(gs, p, k)[m].0 + 1),
        /*#law.exactly_the_changing_groups C16*/
        forall|m: int| 0 <= m < trace_spec(gs, p, k).len() ==> changed_at(gs, p, (#[trigger] trace_spec(gs, p, k)[m]).0),
        forall|i: int| 0 <= i < k && changed_at(gs, p, i) ==> exists|m: int| 0 <= m < trace_spec(gs, p, k).len() && (#[trigger] trace_spec(gs, p, k)[m]).0 == i,
    decreases k
{
    if k > 0 {
        law_trace_indices_increasing(gs, p, k - 1);
        let t = trace_spec(gs, p, k - 1);
        if changed_at(gs, p, k - 1) {
            let t2 = t.push((k - 1, state_at(gs, p, k)));
            assert(trace_spec(gs, p, k) == t2);
            assert(t2[t2.len() - 1].0 == k - 1);
            assert forall|i: int| 0 <= i < k && changed_at(gs, p, i) implies exists|m: int| 0 <= m < t2.len() && (#[trigger] t2[m]).0 == i by {
                if i == k - 1 { assert(t2[t2.len() - 1].0 == i); } else {
                    let m = choose|m: int| 0 <= m < t.len() && (#[trigger] t[m]).0 == i;
                    assert(t2[m].0 == i);
                }
            }
        }
    }
}

/// `weq` (Word::eq) is an equivalence relation -- ASSUMED (it compares the two syllable vectors)
#[verifier::external_body]
proof fn axiom_weq_equivalence()
    ensures forall|a: Word| weq(a, a),
        forall|a: Word, b: Word| weq(a, b) ==> weq(b, a),
        forall|a: Word, b: Word, c: Word| weq(a, b) && weq(b, c) ==> weq(a, c),
{}

/// last reported state (or the input, if nothing is reported) is `weq` to the plain run's result
proof fn law_last_state_equals_run(gs: Seq<Vec<Rule>>, p: Seq<Word>, k: int)
    requires 0 <= k <= gs.len()
    ensures /*#law.last_reported_state_equals_run C16*/ ({
        let t = trace_spec(gs, p, k);
        pseq_eq(if t.len() == 0 { state_at(gs, p, 0) } else { t[t.len() - 1].1 }, state_at(gs, p, k))
    })
    decreases k
{
    axiom_weq_equivalence();
    if k > 0 {
        law_last_state_equals_run(gs, p, k - 1);
        let t = trace_spec(gs, p, k - 1);
        if !changed_at(gs, p, k - 1) {
            let last = if t.len() == 0 { state_at(gs, p, 0) } else { t[t.len() - 1].1 };
            let a = state_at(gs, p, k - 1);
            let b = state_at(gs, p, k);
            assert(pseq_eq(b, a));
            assert(pseq_eq(last, a));
            assert forall|j: int| 0 <= j < last.len() implies weq(#[trigger] last[j], b[j]) by {
                assert(weq(last[j], a[j]));
                assert(weq(b[j], a[j]));
            }
        }
    }
}
proof fn law_state0_is_input(gs: Seq<Vec<Rule>>, p: Seq<Word>)
    ensures state_at(gs, p, 0) =~= p
{
    assert(gs.take(0) =~= Seq::<Vec<Rule>>::empty());
}
//@ end

//@ contract Phrase::deref ret=r
    ensures r@ == pv(*self),
//@ end
//@ contract Phrase::deref_mut ret=r
    ensures r@ == pv(*old(self)), pv(*final(self)) == final(r)@,
//@ end

// =================================================================== apply_rule_groups
//@ attr apply_rule_groups
#[verifier::loop_isolation(false)]
//@ end
//@ contract apply_rule_groups ret=r
    ensures
        /*#run.one_result_per_word_in_order C11*/ r matches Ok(v) ==> (
            v@.len() == phrases@.len()
            && forall|i: int| 0 <= i < v@.len() ==> pv(#[trigger] v@[i]).len() == pv(phrases@[i]).len()),
        /*#run.each_word_is_the_fold_of_that_word_only C11,C10,C16*/ r matches Ok(v) ==> (
            forall|i: int, j: int| 0 <= i < phrases@.len() && 0 <= j < pv(phrases@[i]).len()
                ==> fold_groups(rules@, #[trigger] pv(phrases@[i])[j]) == Ok::<Word, Error>(pv(v@[i])[j])),
        /*#run.first_error_wins C11*/ r matches Err(e) ==> (
            exists|i: int, j: int| 0 <= i < phrases@.len() && 0 <= j < pv(phrases@[i]).len()
                && #[trigger] fold_groups(rules@, pv(phrases@[i])[j]) == Err::<Word, Error>(e)
                && (forall|i2: int, j2: int| 0 <= i2 < phrases@.len() && 0 <= j2 < pv(phrases@[i2]).len() && (i2 < i || (i2 == i && j2 < j))
                        ==> (#[trigger] fold_groups(rules@, pv(phrases@[i2])[j2])) is Ok)),
//@ end
//@ loop apply_rule_groups 0 iter=it0
    invariant
        transformed_phrases@.len() == it0.index@,
        forall|i: int| 0 <= i < it0.index@ ==> pv(#[trigger] transformed_phrases@[i]).len() == pv(phrases@[i]).len(),
        /*#run.inv.done_words_are_their_folds C11,C10,C16*/ forall|i: int, j: int| 0 <= i < it0.index@ && 0 <= j < pv(phrases@[i]).len()
            ==> fold_groups(rules@, #[trigger] pv(phrases@[i])[j]) == Ok::<Word, Error>(pv(transformed_phrases@[i])[j]),
//@ end
//@ loop apply_rule_groups 1 iter=it1
    invariant
        it0.index@ < phrases@.len(), *phrase == phrases@[it0.index@],
        pv(transformed_phrase).len() == it1.index@, it1.index@ <= pv(*phrase).len(),
        forall|j: int| 0 <= j < it1.index@ ==> fold_groups(rules@, #[trigger] pv(*phrase)[j]) == Ok::<Word, Error>(pv(transformed_phrase)[j]),
//@ end
//@ loop apply_rule_groups 2 iter=it2
    invariant
        it1.index@ < pv(*phrase).len(), *word == pv(*phrase)[it1.index@],
        it2.index@ <= rules@.len(),
        /*#run.inv.word_threaded_through_groups_in_order C11,C10,C16*/ fold_groups(rules@.take(it2.index@), *word) == Ok::<Word, Error>(res_word),
//@ end
//@ loop apply_rule_groups 3 iter=it3
    invariant
        it2.index@ < rules@.len(), *rule_group == rules@[it2.index@],
        it3.index@ <= rule_group@.len(),
        fold_groups(rules@.take(it2.index@), *word) is Ok,
        fold_rules(rule_group@.take(it3.index@), fold_groups(rules@.take(it2.index@), *word)->Ok_0) == Ok::<Word, Error>(res_word),
//@ end
//@ loop_proof_start apply_rule_groups 3
    let g = it2.index@;
    let k = it3.index@;
    let w0 = fold_groups(rules@.take(g), *word)->Ok_0;
    lemma_fold_rules_step(rule_group@, k, w0);
    lemma_fold_groups_step(rules@, g, *word);
    if ap(*rule, res_word) is Err {
        lemma_fold_rules_err_prefix(rule_group@, k + 1, w0);
        lemma_fold_groups_err_prefix(rules@, g + 1, *word);
        // witness for the first-error postcondition
        assert(fold_groups(rules@, pv(phrases@[it0.index@])[it1.index@]) == Err::<Word, Error>(ap(*rule, res_word)->Err_0));
    }
//@ end
//@ loop_proof_end apply_rule_groups 2
    assert(rule_group@.take(rule_group@.len() as int) =~= rule_group@);
    lemma_fold_groups_step(rules@, it2.index@, *word);
//@ end
//@ loop_proof_end apply_rule_groups 1
    assert(rules@.take(rules@.len() as int) =~= rules@);
//@ end
//@ loop_proof_start apply_rule_groups 1
    assert(rules@.take(0) =~= Seq::<Vec<Rule>>::empty());
//@ end

// =================================================================== apply_rules_trace
//@ attr apply_rules_trace
#[verifier::loop_isolation(false)]
//@ end
//@ contract apply_rules_trace ret=r
    ensures
        /*#trace.ok_iff_every_fold_ok C16*/ r is Ok <==> all_ok_upto(rules@, pv(*phrase), rules@.len() as int),
        /*#trace.reports_exactly_the_changes C16*/ r matches Ok(c) ==> changes_match(c@, trace_spec(rules@, pv(*phrase), rules@.len() as int)),
//@ end
//@ loop apply_rules_trace 0 iter=it0
    invariant
        pv(res_phrase).len() == pv(*phrase).len(),
        all_ok_upto(rules@, pv(*phrase), it0.index@),
        /*#trace.inv.state_is_run_of_prefix C16*/ pv(res_phrase) =~= state_at(rules@, pv(*phrase), it0.index@),
        /*#trace.inv.changes_are_the_trace_so_far C16*/ changes_match(changes@, trace_spec(rules@, pv(*phrase), it0.index@)),
//@ end
//@ loop apply_rules_trace 1 iter=it1
    invariant
        i == it0.index@, i < rules@.len(), *rule_group == rules@[i as int],
        pv(res_phrase).len() == pv(*phrase).len(),
        pv(res_step) =~= state_at(rules@, pv(*phrase), i as int),
        all_ok_upto(rules@, pv(*phrase), i as int),
        forall|j2: int| 0 <= j2 < it1.index@ ==> fold_groups(rules@.take(i + 1), #[trigger] pv(*phrase)[j2]) == Ok::<Word, Error>(pv(res_phrase)[j2]),
        forall|j2: int| it1.index@ <= j2 < pv(*phrase).len() ==> fold_groups(rules@.take(i as int), #[trigger] pv(*phrase)[j2]) == Ok::<Word, Error>(pv(res_phrase)[j2]),
//@ end
//@ loop apply_rules_trace 2 iter=it2
    invariant
        j == it1.index@, j < pv(*phrase).len(),
        pv(res_phrase).len() == pv(*phrase).len(),
        it2.index@ <= rule_group@.len(),
        fold_groups(rules@.take(i as int), pv(*phrase)[j as int]) is Ok,
        fold_rules(rule_group@.take(it2.index@), fold_groups(rules@.take(i as int), pv(*phrase)[j as int])->Ok_0) == Ok::<Word, Error>(pv(res_phrase)[j as int]),
        forall|j2: int| 0 <= j2 < j ==> fold_groups(rules@.take(i + 1), #[trigger] pv(*phrase)[j2]) == Ok::<Word, Error>(pv(res_phrase)[j2]),
        forall|j2: int| j < j2 < pv(*phrase).len() ==> fold_groups(rules@.take(i as int), #[trigger] pv(*phrase)[j2]) == Ok::<Word, Error>(pv(res_phrase)[j2]),
//@ end
//@ loop_proof_start apply_rules_trace 2
    let k = it2.index@;
    let w0 = fold_groups(rules@.take(i as int), pv(*phrase)[j as int])->Ok_0;
    lemma_fold_rules_step(rule_group@, k, w0);
    lemma_fold_groups_step(rules@, i as int, pv(*phrase)[j as int]);
    if ap(*rule, pv(res_phrase)[j as int]) is Err {
        lemma_fold_rules_err_prefix(rule_group@, k + 1, w0);
        lemma_fold_groups_err_prefix(rules@, i + 1, pv(*phrase)[j as int]);
        assert(rules@.take(rules@.len() as int) =~= rules@);
        assert(fold_groups(rules@.take(rules@.len() as int), pv(*phrase)[j as int]) is Err);
    }
//@ end
//@ loop_proof_end apply_rules_trace 1
    assert(rule_group@.take(rule_group@.len() as int) =~= rule_group@);
    lemma_fold_groups_step(rules@, i as int, pv(*phrase)[j as int]);
//@ end
//@ loop_proof_after apply_rules_trace 1
    assert(pv(res_phrase) =~= state_at(rules@, pv(*phrase), i + 1));
    assert(all_ok_upto(rules@, pv(*phrase), i + 1));
//@ end
//@ proof_start apply_rules_trace
    axiom_phrase_clone();
    law_state0_is_input(rules@, pv(*phrase));
    assert(rules@.take(0) =~= Seq::<Vec<Rule>>::empty());
//@ end
