#!/bin/sh
# Offline setup: nothing to build (the framework is Python + tool invocations); sanity-check the tools.
set -e
command -v verus >/dev/null
command -v cargo-kani >/dev/null || command -v cargo kani >/dev/null
python3 -c "import tomllib"
mkdir -p /verif/evidence /verif/replay
echo "setup ok"
