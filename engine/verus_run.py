"""Run one Verus kernel: extract from the repo's working tree, verify, name failed obligations."""
import json
import os
import re
import subprocess
import sys
import time

sys.path.insert(0, os.path.dirname(__file__))
import extract  # noqa: E402

VERIF = os.path.dirname(os.path.dirname(os.path.abspath(__file__)))
VDIR = os.environ.get('VERIF_VDIR') or os.path.join(VERIF, 'contracts', 'verus')   # override: try an overlay in a private copy

CANARY = '''
verus! {
// vacuity canary: this obligation is false and MUST be reported as failing
proof fn verif_canary_must_fail(x: int) ensures x == x + 1 {}
}
'''


def verus_env():
    env = dict(os.environ)
    return env


def run_kernel(kernel: str, repo: str, workdir: str, rlimit=None, timeout=900, canary=True, smt_seed=None):
    """Returns dict(status=ok|failed|undecided, ...).  `failed` lists named obligations."""
    t0 = time.time()
    overlay = os.path.join(VDIR, kernel + '.v.rs')
    out_rs = os.path.join(workdir, kernel + '.rs')
    res = dict(kernel=kernel, overlay=overlay, backend='verus/z3')
    try:
        info = extract.build(overlay, repo, out_rs)
    except (extract.ExtractError, extract.rs.SkimError) as e:
        res.update(status='undecided', reason='extraction: %s' % e, seconds=round(time.time() - t0, 1))
        return res
    if canary:
        with open(out_rs, 'a', encoding='utf-8') as f:
            f.write(CANARY)
    res['rewrite_log'] = info['log']
    res['functions'] = info['functions']
    res['aux_fns'] = info.get('aux_fns', [])
    res['tags'] = info['tags']
    res['serves'] = info['serves']
    res['regions_checked'] = info['regions_checked']
    # mechanical assumption scan of the generated file (DESIGN.md section 7)
    scan = []
    for ln_no, ln in enumerate(open(out_rs, encoding='utf-8').read().split('\n'), 1):
        st = ln.strip()
        if st.startswith('//'):
            continue
        for kw in ('assume(', 'admit(', 'external_body', 'assume_specification', 'external_type_specification', 'uninterp spec fn', 'unimplemented!()'):
            if kw in ln and 'verif_canary' not in ln:
                scan.append(dict(line=ln_no, keyword=kw, text=st[:160]))
                break
    res['assumption_scan'] = scan
    cmd = ['verus', out_rs, '--output-json', '--time', '--error-format=json', '--multiple-errors', '8']
    if rlimit:
        cmd += ['--rlimit', str(rlimit)]
    if smt_seed is not None:
        cmd += ['--smt-option', 'smt.random_seed=%d' % smt_seed]
    res['cmd'] = ' '.join(cmd)
    try:
        p = subprocess.run(cmd, cwd=workdir, env=verus_env(), stdout=subprocess.PIPE, stderr=subprocess.PIPE, text=True, timeout=timeout)
    except subprocess.TimeoutExpired:
        res.update(status='undecided', reason='verus timeout after %ds' % timeout, seconds=round(time.time() - t0, 1))
        return res
    # stdout: JSON document; stderr: one JSON diagnostic per line
    try:
        j = json.loads(p.stdout[p.stdout.index('{'):])
    except Exception:
        res.update(status='undecided', reason='verus produced no JSON: ' + (p.stderr[-1500:] or p.stdout[-1500:]), seconds=round(time.time() - t0, 1))
        return res
    vr = j.get('verification-results', {})
    diags = []
    for ln in p.stderr.split('\n'):
        ln = ln.strip()
        if ln.startswith('{'):
            try:
                d = json.loads(ln)
            except Exception:
                continue
            if d.get('level') == 'error' and d.get('spans'):
                diags.append(d)
    fb = []
    try:
        for m in j['times-ms']['smt']['smt-run-module-times']:
            fb += m.get('function-breakdown', [])
    except Exception:
        pass
    res['smt_time_ms'] = j.get('times-ms', {}).get('smt', {}).get('smt-run')
    res['total_time_ms'] = j.get('times-ms', {}).get('total')
    res['per_function'] = [dict(function=f['function'].split('::', 1)[-1], ms=f.get('time'), ok=f.get('success')) for f in fb]
    res['verified'] = vr.get('verified', 0)
    res['errors'] = vr.get('errors', 0)
    if vr.get('encountered-vir-error') or (not vr.get('success') and vr.get('errors', 0) == 0 and vr.get('verified', 0) == 0):
        # type / mode / unsupported-construct error: not a verdict on the property
        msgs = [json.loads(l).get('message') for l in p.stderr.split('\n') if l.strip().startswith('{') and '"level":"error"' in l]
        res.update(status='undecided', reason='verus front-end error: ' + '; '.join(m for m in msgs[:3] if m), seconds=round(time.time() - t0, 1))
        return res
    tags = sorted(info['tags'], key=lambda t: t['line'])
    src_lines = open(out_rs, encoding='utf-8').read().split('\n')

    def fn_at(line):
        # nearest preceding `fn name` in the emitted file
        for k in range(line - 1, -1, -1):
            m = re.search(r'\bfn\s+(\w+)', src_lines[k]) if k < len(src_lines) else None
            if m and not src_lines[k].lstrip().startswith('//'):
                return m.group(1)
        return '?'

    def tag_at(line):
        best = None
        for t in tags:
            if t['line'] <= line and line - t['line'] <= 6:
                best = t
        return best

    failed = []
    canary_seen = False
    for d in diags:
        # only spans inside the emitted file carry line numbers that mean anything for tags / function names
        # (a failed std precondition has its label span in vstd's std_specs/*.rs)
        def in_file(sp):
            return os.path.basename(sp.get('file_name', '')) == os.path.basename(out_rs)

        def resolve(sp):
            # a span inside a macro body (unreachable!(), panic!, assert!) lives in core/std: follow its expansion
            # chain back to the call site in the emitted file
            cur, hops = sp, 0
            while cur is not None and not in_file(cur) and hops < 12:
                exp = cur.get('expansion')
                cur = exp.get('span') if exp else None
                hops += 1
            if cur is not None and in_file(cur):
                return dict(sp, file_name=cur['file_name'], line_start=cur['line_start'], line_end=cur.get('line_end', cur['line_start']))
            return sp
        spans = [resolve(s) for s in d['spans']]
        spans = [s for s in spans if in_file(s)] or spans
        lab = [s for s in spans if s.get('label') and 'failed' in s['label']]
        prim = [s for s in spans if s.get('is_primary')]
        key = (lab or prim or spans)[0]
        line = key['line_start']
        fn = fn_at(line)
        if fn == 'verif_canary_must_fail' or any(fn_at(s['line_start']) == 'verif_canary_must_fail' for s in spans):
            canary_seen = True
            continue
        t = tag_at(line)
        # a failed precondition at a call site: name caller (primary span) and callee clause (label span)
        site = prim[0]['line_start'] if prim else line
        if t and d['message'].startswith('precondition not satisfied'):
            # a callee's tagged precondition failing at a call site: the obligation is that clause AT THAT CALLER, so that a
            # recorded finding for one call site never hides the same clause failing somewhere else
            t = dict(t, id='%s@%s' % (t['id'], fn_at(site)))
        failed.append(dict(message=d['message'], obligation=(t['id'] if t else '%s.%s' % (fn_at(site), re.sub(r'[^a-z0-9]+', '_', d['message'].lower()).strip('_')[:60])), props=(t['props'] if t else []),
                           function=fn_at(site), line=site, text=src_lines[site - 1].strip()[:200] if site - 1 < len(src_lines) else '',
                           rendered=d.get('rendered', '')[:1500]))
    res['failed'] = failed
    res['canary_failed_as_expected'] = canary_seen
    n_err = res['errors'] - (1 if canary_seen else 0)
    res['errors_excl_canary'] = n_err
    rl = [d for d in diags if 'rlimit' in d['message'].lower() or 'resource limit' in d['message'].lower() or 'timed out' in d['message'].lower()]
    if canary and not canary_seen:
        res.update(status='undecided', reason='vacuity canary did not fail: the verifier is not checking anything')
    elif rl:
        res.update(status='undecided', reason='solver resource limit: ' + rl[0]['message'])
    elif n_err == 0 and not failed:
        res['status'] = 'ok'
    else:
        res['status'] = 'failed'
    res['seconds'] = round(time.time() - t0, 1)
    return res


def reach_probe(kernel: str, repo: str, workdir: str, timeout=900):
    """Reachability behind every precondition (thorough tier): re-extract the kernel with `assert(false)` spliced at the start
    of every function under contract and require that each of those assertions FAILS.  A function whose probe verifies has
    an unsatisfiable precondition (or an unreachable body): its contract is vacuous.  Returns dict(probed=[..], vacuous=[..])."""
    os.makedirs(workdir, exist_ok=True)
    extract.PROBE = True
    try:
        r = run_kernel(kernel, repo, workdir, timeout=timeout, canary=False)
    finally:
        extract.PROBE = False
    out_rs = os.path.join(workdir, kernel + '.rs')
    if r['status'] == 'undecided':
        return dict(kernel=kernel, status='undecided', reason=r.get('reason', ''), probed=[], vacuous=[])
    text = open(out_rs, encoding='utf-8').read().split('\n')
    probes = {}   # line number -> qualified fn name
    for i, ln in enumerate(text, 1):
        m = re.search(r'/\*PROBE (\S+)\*/', ln)
        if m:
            probes[i] = m.group(1)
    hit = set()
    for f in r.get('failed', []):
        if f['message'].startswith('assertion failed'):
            for ln_no, q in probes.items():
                if abs(ln_no - f['line']) <= 1:
                    hit.add(q)
    vac = sorted(set(probes.values()) - hit)
    return dict(kernel=kernel, status='ok' if not vac else 'vacuous', probed=sorted(set(probes.values())), vacuous=vac, seconds=r.get('seconds'))


if __name__ == '__main__':
    if sys.argv[1] == 'probe':
        print(json.dumps(reach_probe(sys.argv[2], sys.argv[3] if len(sys.argv) > 3 else '/repo', sys.argv[4] if len(sys.argv) > 4 else '/tmp/vk-probe'), indent=1))
        sys.exit(0)
    wd = sys.argv[3] if len(sys.argv) > 3 else '/tmp/vk'
    os.makedirs(wd, exist_ok=True)
    r = run_kernel(sys.argv[1], sys.argv[2] if len(sys.argv) > 2 else '/repo', wd)
    r.pop('tags', None)
    r.pop('rewrite_log', None)
    print(json.dumps(r, indent=1))
