"""Kani side: annotated scratch copy of the whole crate + harness runner.

prepare(repo, scratch):
  * copies {src, Cargo.toml, Cargo.lock} from the CURRENT working tree of repo
  * adds src/verif_map.rs + `mod verif_map;` in lib.rs, redirects the HashMap
    import of six files to it (the only edited existing lines; DESIGN 2.2)
  * inserts `#[cfg_attr(kani, kani::requires/ensures/modifies(..))]` lines above
    the fns named in contracts/kani/contracts.toml
  * appends contracts/kani/<file>.rs as `#[cfg(kani)] mod verif_kani { use super::*; .. }`
  * self-check: scratch file minus added lines, import restored == repo file
"""
import json
import os
import re
import resource
import shutil
import signal
import subprocess
import sys
import time
import tomllib

sys.path.insert(0, os.path.dirname(__file__))
import rustsrc as rs  # noqa: E402

VERIF = os.path.dirname(os.path.dirname(os.path.abspath(__file__)))
KDIR = os.environ.get('VERIF_KDIR') or os.path.join(VERIF, 'contracts', 'kani')   # override: develop harnesses in a private copy
MAP_FILES = ['src/rule.rs', 'src/subrule.rs', 'src/seg.rs', 'src/syll.rs', 'src/parser.rs', 'src/word.rs']
MARK = ' //@K'


class PrepError(Exception):
    pass


def _redirect_hashmap(text: str, path: str):
    """First `HashMap` inside the leading `use std...;` statement gets renamed away and
    a `use crate::verif_map::HashMap;` line is added after that statement."""
    m = re.search(r'\buse\s+std\s*::', text)
    if not m:
        raise PrepError('%s: no `use std` statement (anchor lost)' % path)
    end = text.index(';', m.start())
    stmt = text[m.start():end + 1]
    if len(re.findall(r'\bHashMap\b', stmt)) != 1:
        raise PrepError('%s: leading use statement does not import HashMap exactly once (anchor lost)' % path)
    new_stmt = re.sub(r'\bHashMap\b', 'HashMap as StdHashMapUnusedByVerif', stmt)
    nl = text.index('\n', end)
    return text[:m.start()] + new_stmt + text[end + 1:nl] + '\nuse crate::verif_map::HashMap;' + MARK + text[nl:]


def _restore(text: str) -> str:
    text = text.replace('HashMap as StdHashMapUnusedByVerif', 'HashMap')
    # drop appended harness block
    a = text.find('\n//@K-BEGIN')
    if a >= 0:
        b = text.index('//@K-END\n', a)
        text = text[:a + 1] + text[b + len('//@K-END\n'):]
        if text.endswith('\n\n') and a + 1 == len(text):
            pass
    lines = text.split('\n')
    lines = [ln for ln in lines if not ln.endswith(MARK)]
    return '\n'.join(lines)


def load_contracts():
    p = os.path.join(KDIR, 'contracts.toml')
    if not os.path.exists(p):
        return {}
    return tomllib.load(open(p, 'rb'))


HARNESS_RE = re.compile(r'((?:[ \t]*(?://[^\n]*|#\[[^\n]*\])\n)*)[ \t]*(?:pub(?:\([a-z]+\))?\s+)?fn\s+(\w+)\s*\(\s*\)')


def filter_harnesses(text: str, keep):
    """Drop every #[kani::proof*] fn whose name is not in `keep` (helpers and kept harnesses stay).
    Compiling ~150 harnesses costs Kani ~1 s each, so a check only compiles the ones it runs."""
    if keep is None:
        return text
    msk = rs.mask(text)
    cuts = []
    for m in HARNESS_RE.finditer(text):
        attrs = m.group(1)
        if 'kani::proof' not in attrs or m.group(2) in keep:
            continue
        b = msk.find('{', m.end())
        e = rs.match_close(msk, b) + 1
        cuts.append((m.start(), e))
    out, pos = [], 0
    for a, b in cuts:
        out.append(text[pos:a])
        pos = b
    out.append(text[pos:])
    return ''.join(out)


def prepare(repo: str, scratch: str, only_files=None, keep=None):
    os.makedirs(scratch, exist_ok=True)
    for f in ('Cargo.toml', 'Cargo.lock'):
        shutil.copy(os.path.join(repo, f), os.path.join(scratch, f))
    if os.path.exists(os.path.join(scratch, 'src')):
        shutil.rmtree(os.path.join(scratch, 'src'))
    shutil.copytree(os.path.join(repo, 'src'), os.path.join(scratch, 'src'))
    os.makedirs(os.path.join(scratch, '.cargo'), exist_ok=True)
    with open(os.path.join(scratch, '.cargo', 'config.toml'), 'w') as f:
        f.write('[net]\noffline = true\n')
    shutil.copy(os.path.join(KDIR, 'verif_map.rs'), os.path.join(scratch, 'src', 'verif_map.rs'))
    log = []
    contracts = load_contracts()
    by_file = {}
    for key, val in contracts.items():
        # key: "src/place.rs::Place::set_labial" or "src/lib.rs::apply_rule_groups"
        f, _, q = key.partition('::')
        by_file.setdefault(f, []).append((q, val))
    files = set(MAP_FILES) | set(by_file) | {'src/lib.rs'}
    for fn in os.listdir(KDIR):
        if fn.endswith('.rs') and fn not in ('verif_map.rs',) and not fn.startswith('_'):
            files.add('src/' + fn[:-3].replace('__', '/') + '.rs')
    for rel in sorted(files):
        p = os.path.join(scratch, rel)
        if not os.path.exists(p):
            raise PrepError('anchor lost: %s missing' % rel)
        orig = open(p, encoding='utf-8').read()
        text = orig
        # 1. contract attributes (insert bottom-up so offsets stay valid)
        ins = []
        if rel in by_file:
            msk = rs.mask(text)
            for q, val in by_file[rel]:
                parts = q.split('::')
                try:
                    if len(parts) == 2:
                        imp = rs.find_item(text, msk, 'impl', val.get('impl', parts[0]), rel)
                        cands = [it for k, n, it in rs.impl_members(imp) if k == 'fn' and n == parts[1]]
                        if len(cands) != 1:
                            raise rs.SkimError('%d candidates for %s' % (len(cands), q))
                        it = cands[0]
                    else:
                        it = rs.find_item(text, msk, 'fn', parts[0], rel)
                except rs.SkimError as e:
                    raise PrepError('anchor lost: %s: %s' % (key_of(rel, q), e))
                ls = text.rfind('\n', 0, it.head_start) + 1
                indent = text[ls:it.head_start]
                if indent.strip():
                    raise PrepError('%s: fn does not start its line' % q)
                block = ''.join('%s#[cfg_attr(kani, %s)]%s\n' % (indent, a, MARK) for a in val['attrs'])
                ins.append((ls, block))
                log.append(dict(file=rel, fn=q, attrs=len(val['attrs'])))
        for pos, block in sorted(ins, key=lambda x: -x[0]):
            text = text[:pos] + block + text[pos:]
        # 2. HashMap redirect
        if rel in MAP_FILES:
            text = _redirect_hashmap(text, rel)
        # 3. mod line
        if rel == 'src/lib.rs':
            m = re.search(r'(?m)^mod lexer;\n', text)
            if not m:
                raise PrepError('anchor lost: `mod lexer;` in lib.rs')
            text = text[:m.start()] + 'mod verif_map;' + MARK + '\n' + text[m.start():]
        # 4. harness module
        hpath = os.path.join(KDIR, rel[4:-3].replace('/', '__') + '.rs')
        if os.path.exists(hpath):
            h = filter_harnesses(open(hpath, encoding='utf-8').read(), keep)
            if not text.endswith('\n'):
                text += '\n'
                tail_fix = True
            else:
                tail_fix = False
            text += '//@K-BEGIN%s\n#[cfg(kani)]\npub(crate) mod verif_kani {\n#![allow(unused_imports, dead_code, unused_variables, unused_mut, non_snake_case)]\nuse super::*;\n' % (' notrail' if tail_fix else '') + h + '\n}\n//@K-END\n'
        # self-check
        back = _restore(text)
        if '//@K-BEGIN notrail' in text and back.endswith('\n'):
            back = back[:-1]
        if back != orig:
            raise PrepError('self-check failed for %s: scratch text minus added lines differs from the repository file' % rel)
        with open(p, 'w', encoding='utf-8') as f:
            f.write(text)
    return log


def key_of(rel, q):
    return rel + '::' + q


# ------------------------------------------------------------------ running


def _limits(mem_gb):
    def f():
        os.setsid()
        if mem_gb:
            b = int(mem_gb * (1 << 30))
            resource.setrlimit(resource.RLIMIT_AS, (b, b))
    return f


KANI_FLAGS = ['-Z', 'function-contracts', '-Z', 'stubbing', '-Z', 'unstable-options', '-Z', 'concrete-playback']


def kani_env():
    env = dict(os.environ)
    env['CARGO_NET_OFFLINE'] = 'true'
    env.pop('RUSTUP_TOOLCHAIN', None)
    return env


def build(scratch: str, target: str, timeout=1200):
    """Compile the crate for Kani once (no verification)."""
    t0 = time.time()
    cmd = ['cargo', 'kani', '--only-codegen', '--target-dir', target] + KANI_FLAGS
    p = subprocess.run(cmd, cwd=scratch, env=kani_env(), stdout=subprocess.PIPE, stderr=subprocess.STDOUT, text=True, timeout=timeout)
    return dict(ok=p.returncode == 0, seconds=round(time.time() - t0, 1), output=p.stdout[-6000:], cmd=' '.join(cmd))


RES_RE = re.compile(r'^VERIFICATION:- (SUCCESSFUL|FAILED)', re.M)
CHECK_RE = re.compile(r'^Check \d+: (\S+)\n\s+- Status: (\w+)\n\s+- Description: "(.*)"\n\s+- Location: (.*)$', re.M)


def run_harness(scratch: str, target: str, harness: str, timeout=600, mem_gb=20, playback=False, extra=None):
    """Run one harness (exact name).  Returns dict(status=proved|failed|timeout|oom|error, ...)."""
    cmd = ['cargo', 'kani', '--target-dir', target, '--harness', harness, '--exact'] + KANI_FLAGS
    if playback:
        cmd += ['--concrete-playback=print']
    if extra:
        cmd += extra
    t0 = time.time()
    proc = subprocess.Popen(cmd, cwd=scratch, env=kani_env(), stdout=subprocess.PIPE, stderr=subprocess.STDOUT, text=True,
                            preexec_fn=_limits(mem_gb))
    try:
        out, _ = proc.communicate(timeout=timeout)
        status = None
    except subprocess.TimeoutExpired:
        try:
            os.killpg(proc.pid, signal.SIGKILL)
        except ProcessLookupError:
            pass
        out, _ = proc.communicate()
        status = 'timeout'
    secs = round(time.time() - t0, 1)
    res = dict(harness=harness, seconds=secs, cmd=' '.join(cmd))
    m = RES_RE.search(out)
    failed_checks = [dict(name=c.group(1), description=c.group(3), location=c.group(4).strip())
                     for c in CHECK_RE.finditer(out) if c.group(2) == 'FAILURE']
    n_checks = len(CHECK_RE.findall(out))
    ms = re.search(r'\*\* (\d+) of (\d+) failed', out)
    if ms:
        n_checks = int(ms.group(2))
    res['checks'] = n_checks
    res['failed_checks'] = failed_checks
    cov = re.findall(r'Status: (SATISFIED|UNSATISFIABLE|UNREACHABLE)\n\s+- Description: "(cover[^"]*)"', out)
    res['covers'] = [dict(status=s, description=d) for s, d in cov]
    if status == 'timeout':
        res['status'] = 'timeout'
    elif m and m.group(1) == 'SUCCESSFUL':
        res['status'] = 'proved'
    elif m and m.group(1) == 'FAILED':
        # distinguish real assertion failures from unwinding / unsupported-construct failures
        kinds = set()
        for c in failed_checks:
            if 'unwinding assertion' in c['description'] or c['name'].endswith('.unwind') or '.unwind.' in c['name']:
                kinds.add('unwind')
            elif 'unsupported' in c['description'].lower() or 'is not currently supported' in c['description']:
                kinds.add('unsupported')
            else:
                kinds.add('assertion')
        if 'assertion' in kinds:
            res['status'] = 'failed'
        elif kinds:
            res['status'] = 'undecided'
            res['reason'] = ','.join(sorted(kinds))
        elif 'out of memory' in out.lower() or 'std::bad_alloc' in out:
            res['status'] = 'oom'
        else:
            # FAILED without a single failing check: the back end stopped (memory / time), not a verdict
            res['status'] = 'error'
            res['reason'] = 'verifier stopped without reporting a failing check'
    elif 'out of memory' in out.lower() or 'std::bad_alloc' in out or 'memory allocation' in out.lower() or proc.returncode in (-9, 137):
        res['status'] = 'oom'
    else:
        res['status'] = 'error'
    if 'Stub:' in out:
        res['stubs'] = sorted(set(re.findall(r'- Stub: (.*)', out)))
    pb = re.search(r'Concrete playback unit test for `[^`]*`:\n```\n(.*?)```', out, re.S)
    if pb:
        res['playback_test'] = pb.group(1)
    res['tail'] = out[-3000:]
    vt = re.search(r'Verification Time: ([\d.]+)s', out)
    if vt:
        res['verification_time_s'] = float(vt.group(1))
    return res


def _classify(failed_checks):
    kinds = set()
    for c in failed_checks:
        d = c['description']
        if 'unwinding assertion' in d or c.get('category') == 'unwind':
            kinds.add('unwind')
        elif 'is not currently supported' in d or 'unsupported' in d.lower() or c.get('category') == 'unsupported_construct':
            kinds.add('unsupported')
        else:
            kinds.add('assertion')
    return kinds


def run_batch(scratch: str, target: str, harnesses, jobs=8, harness_timeout=600, mem_gb=20, wall_timeout=None):
    """One `cargo kani` invocation for many harnesses (exact names), verified in parallel.
    Returns {full_name: result dict} in the same shape as run_harness."""
    if not harnesses:
        return {}
    outj = os.path.join(scratch, 'kani-export-%d.json' % int(time.time() * 1000))
    cmd = ['cargo', 'kani', '--target-dir', target, '--exact'] + KANI_FLAGS + ['-j', str(jobs), '--output-format', 'terse',
           '--export-json', outj, '--harness-timeout', '%ds' % harness_timeout]
    for h in harnesses:
        cmd += ['--harness', h]
    t0 = time.time()
    proc = subprocess.Popen(cmd, cwd=scratch, env=kani_env(), stdout=subprocess.PIPE, stderr=subprocess.STDOUT, text=True, preexec_fn=_limits(mem_gb))
    wall = wall_timeout or (harness_timeout * (1 + len(harnesses) // max(jobs, 1)) + 600)
    try:
        out, _ = proc.communicate(timeout=wall)
    except subprocess.TimeoutExpired:
        try:
            os.killpg(proc.pid, signal.SIGKILL)
        except ProcessLookupError:
            pass
        out, _ = proc.communicate()
    results = {}
    j = None
    if os.path.exists(outj):
        try:
            j = json.load(open(outj))
        except Exception:
            j = None
    cmd_s = ' '.join(cmd[:cmd.index('--harness')]) + ' --harness <name>'
    if j:
        stats = {c['harness_id']: c for c in j.get('cbmc', [])}
        pd = {c['harness_id']: c['property_details'] for c in j.get('property_details', [])}
        for r in j.get('verification_results', {}).get('results', []):
            hid = r['harness_id']
            checks = r.get('checks', [])
            failed = [dict(name='%s.%s.%s' % (c.get('function'), c.get('category'), c.get('id')), description=str(c.get('description', '')).strip('"'),
                           category=c.get('category'),
                           location='%s:%s:%s in function %s' % (c.get('location', {}).get('file'), c.get('location', {}).get('line'), c.get('location', {}).get('column'), c.get('function')))
                      for c in checks if c.get('status') in ('Failure', 'Undetermined')]
            covers = [dict(status=c['status'].upper(), description=str(c.get('description', '')).strip('"')) for c in checks if c.get('category') == 'cover']
            res = dict(harness=hid, seconds=round(r.get('duration_ms', 0) / 1000.0, 1), cmd=cmd_s, checks=pd.get(hid, {}).get('total_properties', len(checks)),
                       failed_checks=failed, covers=covers, tail='')
            st = r.get('status')
            if st == 'Success':
                res['status'] = 'proved'
            elif st in ('Failure', 'Failed'):
                kinds = _classify(failed)
                if not failed:
                    # "Failure" without a single failing check: CBMC was stopped (memory limit / timeout / killed under load),
                    # not a verdict.  The driver re-runs such a harness alone before giving up (never an alarm).
                    res['status'] = 'error'
                    res['reason'] = 'verifier stopped without reporting a failing check (memory or time limit under load)'
                elif 'assertion' in kinds or not kinds:
                    res['status'] = 'failed'
                else:
                    res['status'] = 'undecided'
                    res['reason'] = ','.join(sorted(kinds))
            else:
                res['status'] = 'error'
                res['reason'] = str(st)
            cs = stats.get(hid, {}).get('cbmc_stats', {})
            res['cbmc'] = dict(symex_s=cs.get('runtime_symex_s'), solver_s=cs.get('runtime_solver_s'), vccs=cs.get('vccs_generated'), vccs_remaining=cs.get('vccs_remaining'),
                               solver=stats.get(hid, {}).get('configuration', {}).get('solver'))
            results[hid] = res
    for h in harnesses:
        if h not in results:
            # timed out / crashed / OOM inside the batch: classify from the terse log
            status = 'error'
            if re.search(r'timed out|TIMEOUT', out) :
                status = 'timeout'
            if 'out of memory' in out.lower() or 'bad_alloc' in out:
                status = 'oom'
            results[h] = dict(harness=h, seconds=round(time.time() - t0, 1), cmd=cmd_s, checks=0, failed_checks=[], covers=[], status=status, tail=out[-2000:])
    return results


def list_harnesses(scratch_src_dir=None):
    """Names of all harness fns in contracts/kani/*.rs: (module path, fn name, attrs text)."""
    out = []
    for fn in sorted(os.listdir(KDIR)):
        if not fn.endswith('.rs') or fn == 'verif_map.rs' or fn.startswith('_'):
            continue
        modpath = fn[:-3].replace('__', '::')
        text = open(os.path.join(KDIR, fn), encoding='utf-8').read()
        for m in re.finditer(r'((?:[ \t]*(?://[^\n]*|#\[[^\n]*\])\n)*)[ \t]*(?:pub(?:\([a-z]+\))?\s+)?fn\s+(\w+)\s*\(\s*\)', text):
            attrs = m.group(1)
            if 'kani::proof' in attrs:
                full = ('verif_kani::%s' % m.group(2)) if modpath == 'lib' else ('%s::verif_kani::%s' % (modpath, m.group(2)))
                out.append(dict(module=modpath, name=m.group(2), attrs=attrs, full=full))
    return out


if __name__ == '__main__':
    cmd = sys.argv[1]
    if cmd == 'prepare':
        print(json.dumps(prepare(sys.argv[2], sys.argv[3]), indent=1))
    elif cmd == 'build':
        print(json.dumps(build(sys.argv[2], sys.argv[3]), indent=1))
    elif cmd == 'run':
        r = run_harness(sys.argv[2], sys.argv[3], sys.argv[4], timeout=int(sys.argv[5]) if len(sys.argv) > 5 else 600, playback='--playback' in sys.argv)
        print(json.dumps(r, indent=1))
    elif cmd == 'list':
        for h in list_harnesses():
            print(h['full'])
