// =====================================================================================
// K3/K4 match side: SubRule::{match_modifiers, match_feat_mod, match_node_mod, match_node, match_seg_kind,
// match_stress, match_tone, match_seg_length, match_supr_mod_seg}; C07 capture -> re-apply identities
// =====================================================================================
use crate::seg::verif_kani::*;
use crate::word::verif_kani::{mk_syll, mk_word, any_stress};
use crate::place::verif_kani::{v_lab, v_cor, v_dor, v_phr};

pub(crate) fn mk_subrule() -> SubRule {
    SubRule { input: Vec::new(), output: Vec::new(), context: None, except: None, rule_type: RuleType::Substitution,
              variables: RefCell::new(HashMap::new()), alphas: RefCell::new(HashMap::new()) }
}
pub(crate) fn bin(m: Option<ModKind>) -> Option<bool> { if m == POS { Some(true) } else if m == NEG { Some(false) } else { None } }

//% props=C04 tier=thorough kind=P timeout=1800 mem=44 pair=SubRule::match_modifiers,SubRule::match_feat_mod,SubRule::match_node_mod,SubRule::match_node,SubRule::match_seg_kind clause="M1: a binary matrix matches iff every named feature / node has the named value; absent sub-node matches neither + nor -"
#[kani::proof]
#[kani::unwind(28)]
fn k3_match_modifiers_binary() {
    let seg = any_wf_segment();
    let w = mk_word(vec![mk_syll(&[seg], StressKind::Unstressed, 0)]);
    let sr = mk_subrule();
    let mods = Modifiers { nodes: any_bin_nodes(), feats: any_bin_feats(), suprs: SupraSegs::new() };
    let got = sr.match_modifiers(&mods, &w, &SegPos::new(0, 0), pos0());
    let ov = view7(&seg);
    let mut want = true;
    let mut i = 0;
    while i < 26 {
        let (n, m) = MASK_TABLE[i];
        let v = ov[slot(n)];
        if mods.feats[i] == POS { want = want && v.is_some() && v.unwrap() & m == m }
        if mods.feats[i] == NEG { want = want && v.is_some() && v.unwrap() & m == 0 }
        i += 1;
    }
    // nodes: root/manner/laryngeal always present; place present iff Some; sub-nodes by presence
    let present = [true, true, true, seg.place.raw_for_verif().is_some(), ov[3].is_some(), ov[4].is_some(), ov[5].is_some(), ov[6].is_some()];
    let mut k = 0;
    while k < 8 {
        if mods.nodes[k] == POS { want = want && present[k] }
        if mods.nodes[k] == NEG { want = want && !present[k] }
        k += 1;
    }
    assert!(matches!(got, Ok(b) if b == want), "M1: match_modifiers on a binary matrix");
    assert!(sr.alphas.borrow().is_empty(), "matching a binary matrix binds nothing");
    kani::cover!(want);
}

//% props=C04 tier=quick kind=P timeout=900 pair=SubRule::match_feat_mod,SubRule::match_node_mod,SubRule::match_node,SubRule::match_seg_kind clause="M1 per slot: a named binary feature / node matches iff it has the named value; a feature of an absent sub-node matches neither + nor -"
#[kani::proof]
#[kani::unwind(28)]
fn k3_match_slot_binary() {
    let seg = any_wf_segment();
    let sr = mk_subrule();
    let ov = view7(&seg);
    let i: usize = kani::any();
    kani::assume(i < 26);
    let m = any_binmod();
    let (n, msk) = MASK_TABLE[i];
    let v = ov[slot(n)];
    let want = match bin(m) { None => true, Some(true) => v.is_some() && v.unwrap() & msk == msk, Some(false) => v.is_some() && v.unwrap() & msk == 0 };
    assert!(matches!(sr.match_feat_mod(&m, i, seg), Ok(b) if b == want), "M1: feature slot");
    let k: usize = kani::any();
    kani::assume(k < 8);
    let nm = any_binmod();
    let present = [true, true, true, seg.place.raw_for_verif().is_some(), ov[3].is_some(), ov[4].is_some(), ov[5].is_some(), ov[6].is_some()];
    let wantn = match bin(nm) { None => true, Some(b) => b == present[k] };
    assert!(matches!(sr.match_node_mod(&nm, k, seg, pos0()), Ok(b) if b == wantn), "M1: node slot (place present iff Some)");
    assert!(sr.alphas.borrow().is_empty(), "matching a binary slot binds nothing");
}

//% props=C04,C07 tier=quick kind=P timeout=900 pair=SubRule::match_seg_kind,SubRule::match_feat_mod clause="A1: feature alpha capture and bound comparison; -alpha is the inverse"
#[kani::proof]
#[kani::unwind(28)]
fn k3_match_alpha_feature() {
    let seg = any_wf_segment();
    let i: usize = kani::any();
    kani::assume(i < 26);
    let (n, m) = MASK_TABLE[i];
    let inv: bool = kani::any();
    let md = Some(ModKind::Alpha(if inv { AlphaMod::InvAlpha('α') } else { AlphaMod::Alpha('α') }));
    let v = view7(&seg)[slot(n)];
    // unbound: binds alpha := bit(F) (inverse for -alpha) and matches iff the node is present
    let sr = mk_subrule();
    let r = sr.match_feat_mod(&md, i, seg);
    assert!(matches!(r, Ok(b) if b == v.is_some()), "A1: unbound feature alpha matches iff the node is present");
    match v {
        Some(x) => { let bit = x & m != 0;
            assert!(matches!(sr.alphas.borrow().get(&'α'), Some(Alpha::Feature(b)) if *b == (bit != inv)), "A1: alpha := value of F (inverted for -alpha)"); }
        None => assert!(sr.alphas.borrow().get(&'α').is_none(), "A1: nothing bound on an absent node"),
    }
    // bound: compares against the carried truth value
    let a = any_alpha_value();
    let truth = alpha_truth(&a) != inv;
    let sr2 = mk_subrule();
    sr2.alphas.borrow_mut().insert('α', a);
    let r2 = sr2.match_feat_mod(&md, i, seg);
    let want = match v { None => false, Some(x) => if truth { x & m == m } else { x & m == 0 } };
    assert!(matches!(r2, Ok(b) if b == want), "A1: bound alpha matches like the binary value it carries");
}

//% props=C04,C07 tier=quick kind=P timeout=900 pair=SubRule::match_node,SubRule::match_node_mod clause="A1: node / place alpha capture and comparison; -alpha unbound is AlphaUnknownInv"
#[kani::proof]
#[kani::unwind(28)]
fn k3_match_alpha_node() {
    let seg = any_wf_segment();
    let k: usize = kani::any();
    kani::assume(k < 8);
    let node = NodeKind::from_usize(k);
    let md = Some(ModKind::Alpha(AlphaMod::Alpha('β')));
    let ov = view7(&seg);
    let sr = mk_subrule();
    let r = sr.match_node_mod(&md, k, seg, pos0());
    assert!(matches!(r, Ok(true)), "A1: unbound node alpha always matches and binds");
    {
        let al = sr.alphas.borrow();
        match al.get(&'β') {
            Some(Alpha::Place(pm)) => assert!(k == 3 && pm.lab == ov[3] && pm.cor == ov[4] && pm.dor == ov[5] && pm.phr == ov[6], "A1: place alpha captures the four sub-nodes"),
            Some(Alpha::Node(n, v)) => assert!(k != 3 && *n == node && *v == ov[slot(node)], "A1: node alpha captures that node's value"),
            _ => assert!(false, "A1: a node alpha must be bound"),
        }
    }
    // bound node alpha: matches iff the node has that value
    let a = any_alpha_value();
    let sr2 = mk_subrule();
    sr2.alphas.borrow_mut().insert('β', a.clone());
    let r2 = sr2.match_node_mod(&md, k, seg, pos0());
    match &a {
        Alpha::Node(n, v) => if *n == node { assert!(matches!(r2, Ok(b) if b == (ov[slot(node)] == *v))) } else { assert!(matches!(r2, Err(RuleRuntimeError::AlphaIsNotSameNode(_)))) },
        Alpha::Place(pm) => assert!(matches!(r2, Ok(b) if b == (ov[3] == pm.lab && ov[4] == pm.cor && ov[5] == pm.dor && ov[6] == pm.phr))),
        _ => assert!(matches!(r2, Err(RuleRuntimeError::AlphaIsNotNode(_)))),
    }
    // inverse, unbound
    let sr3 = mk_subrule();
    let r3 = sr3.match_node_mod(&Some(ModKind::Alpha(AlphaMod::InvAlpha('β'))), k, seg, pos0());
    assert!(matches!(r3, Err(RuleRuntimeError::AlphaUnknownInv(_))));
}

//% props=C07,C04 tier=quick kind=P timeout=1200 pair=SubRule::match_seg_kind,Segment::apply_seg_mods clause="C07: [alpha F] > [alpha F] leaves every wf segment unchanged, for every feature F"
#[kani::proof]
#[kani::unwind(28)]
fn k7_alpha_feature_identity() {
    let seg = any_wf_segment();
    let i: usize = kani::any();
    kani::assume(i < 26);
    let md = Some(ModKind::Alpha(AlphaMod::Alpha('α')));
    let sr = mk_subrule();
    let matched = sr.match_feat_mod(&md, i, seg);
    if let Ok(true) = matched {
        let mut feats = [None; 26];
        feats[i] = md;
        let mut s = seg;
        let r = s.apply_seg_mods(&sr.alphas, [None; 8], feats, pos0(), false);
        assert!(r.is_ok() && s == seg, "C07: feature alpha written back onto the segment it was read from changes nothing");
    }
    kani::cover!(matches!(matched, Ok(true)));
}

//% props=C07,C04 tier=quick kind=P timeout=1200 pair=SubRule::match_node,Segment::apply_seg_mods clause="C07: [alpha NODE] > [alpha NODE] and [alpha PLACE] > [alpha PLACE] leave every wf segment unchanged"
#[kani::proof]
#[kani::unwind(28)]
fn k7_alpha_node_identity() {
    let seg = any_wf_segment();
    let k: usize = kani::any();
    kani::assume(k < 8);
    let nd = Some(ModKind::Alpha(AlphaMod::Alpha('β')));
    let sr2 = mk_subrule();
    let m2 = sr2.match_node_mod(&nd, k, seg, pos0());
    assert!(matches!(m2, Ok(true)));
    let mut nodes = [None; 8];
    nodes[k] = nd;
    let mut t = seg;
    let r2 = t.apply_seg_mods(&sr2.alphas, nodes, [None; 26], pos0(), false);
    assert!(r2.is_ok() && t == seg, "C07: node / place alpha written back changes nothing");
}

// =====================================================================================
// K4 match side of the suprasegmental tables (C05) and the C07 stress identity
// =====================================================================================
use crate::parser::verif_kani::{any_supra_slot, slot_truth, any_binding};
use crate::syll::verif_kani::{stress_ok, stress_target};

pub(crate) fn len_ok(long: Option<bool>, over: Option<bool>, n: usize) -> bool {
    (match long { Some(b) => if b { n >= 2 } else { n <= 1 }, None => true })
        && (match over { Some(b) => if b { n >= 3 } else { n <= 2 }, None => true })
}

//% props=C05,C07 tier=quick kind=P pair=SubRule::match_stress,SubRule::match_tone clause="stress / tone matching table for all 3 stresses x 5^2 slots (binary, alpha, -alpha; bound and unbound)"
#[kani::proof]
#[kani::unwind(5)]
fn k4_match_stress_tone() {
    let s0 = any_stress();
    let t0: u16 = kani::any();
    let sy = mk_syll(&[], s0, t0);
    let sr = mk_subrule();
    let bound: Option<Alpha> = if kani::any() { let a = any_alpha_value(); sr.alphas.borrow_mut().insert('α', a.clone()); Some(a) } else { None };
    let stress = [any_supra_slot(), any_supra_slot()];
    let r = sr.match_stress(&stress, &sy);
    // an unbound alpha binds to the value that makes the slot match (so it never rejects); the FIRST slot may bind 'α' for the second
    let is_alpha = |m: &Option<ModKind>| matches!(m, Some(ModKind::Alpha(_)));
    let mut b = bound.clone();
    let mut want = true;
    // slot 0: ±stress
    match slot_truth(&stress[0], &b) {
        None => {}
        Some(Some(t)) => want = want && (t == (s0 != StressKind::Unstressed)),
        Some(None) => { // unbound: binds alpha := stressed (inverse for -alpha)
            let inv = matches!(stress[0], Some(ModKind::Alpha(AlphaMod::InvAlpha(_))));
            b = Some(Alpha::Supra((s0 != StressKind::Unstressed) != inv));
        }
    }
    if want {
        match slot_truth(&stress[1], &b) {
            None => {}
            Some(Some(t)) => want = want && (t == (s0 == StressKind::Secondary)),
            Some(None) => {}
        }
    }
    assert!(matches!(r, Ok(x) if x == want), "stress matching table (incl. alpha capture)");
    if bound.is_none() && !is_alpha(&stress[0]) && !is_alpha(&stress[1]) {
        assert!(want == stress_ok(slot_truth(&stress[0], &None).flatten(), slot_truth(&stress[1], &None).flatten(), s0), "binary rows equal the manual's table");
        assert!(sr.alphas.borrow().is_empty());
    }
    if bound.is_none() && want {
        let inv = |m: &Option<ModKind>| matches!(m, Some(ModKind::Alpha(AlphaMod::InvAlpha(_))));
        let al = sr.alphas.borrow();
        if is_alpha(&stress[0]) {
            assert!(matches!(al.get(&'α'), Some(Alpha::Supra(v)) if *v == ((s0 != StressKind::Unstressed) != inv(&stress[0]))), "alpha on stress captures stressed / unstressed");
        } else if is_alpha(&stress[1]) {
            assert!(matches!(al.get(&'α'), Some(Alpha::Supra(v)) if *v == ((s0 == StressKind::Secondary) != inv(&stress[1]))), "alpha on sec.stress captures secondary / not");
        }
    }
    let t: u16 = kani::any();
    assert!(sr.match_tone(&t, &sy) == (t == t0), "[tone:n] matches the whole tone, 0 = none");
}

//% props=C05,C07 tier=quick kind=B timeout=900 bound="syllables of exactly 4 segments with the run (length 1..4) starting at index 0 or 1; get_seg_length_at itself is proved for all lengths in Verus" pair=SubRule::match_seg_length,Word::seg_length_at,Syllable::get_seg_length_at clause="length matching = len_ok(run length) for binary / alpha slots on a real VecDeque"
#[kani::proof]
#[kani::unwind(6)]
fn k4_match_seg_length() {
    let a = any_wf_segment();
    let b = any_wf_segment();
    kani::assume(a != b);
    let n: usize = kani::any();
    kani::assume(n >= 1 && n <= 3);
    let start: usize = kani::any();
    kani::assume(start <= 1);
    // [b?] a^n b...  in a syllable of 4 segments
    let mut segs = [b; 4];
    let mut i = 0;
    while i < 4 { if i >= start && i < start + n { segs[i] = a } i += 1; }
    let w = mk_word(vec![mk_syll(&segs, StressKind::Unstressed, 0)]);
    let sr = mk_subrule();
    let bound: Option<Alpha> = if kani::any() { let x = any_alpha_value(); sr.alphas.borrow_mut().insert('α', x.clone()); Some(x) } else { None };
    let length = [any_supra_slot(), any_supra_slot()];
    let pos = SegPos::new(0, start);
    assert!(w.seg_length_at(pos) == n, "run length on the real VecDeque");
    let r = sr.match_seg_length(&w, &length, &pos);
    let mut bnd = bound.clone();
    let mut want = true;
    match slot_truth(&length[0], &bnd) {
        None => {}
        Some(Some(t)) => want = want && (if t { n >= 2 } else { n <= 1 }),
        Some(None) => { let inv = matches!(length[0], Some(ModKind::Alpha(AlphaMod::InvAlpha(_)))); bnd = Some(Alpha::Supra((n > 1) != inv)); }
    }
    if want {
        match slot_truth(&length[1], &bnd) {
            None => {}
            Some(Some(t)) => want = want && (if t { n >= 3 } else { n <= 2 }),
            Some(None) => {}
        }
    }
    assert!(matches!(r, Ok(x) if x == want), "length matching table (incl. alpha capture)");
    // capture rule (C07 relies on it): an unbound alpha on `long` binds to n > 1, on `overlong` to n > 2 (inverted for -alpha)
    if bound.is_none() && want {
        let inv = |m: &Option<ModKind>| matches!(m, Some(ModKind::Alpha(AlphaMod::InvAlpha(_))));
        let is_a = |m: &Option<ModKind>| matches!(m, Some(ModKind::Alpha(_)));
        let al = sr.alphas.borrow();
        if is_a(&length[0]) {
            assert!(matches!(al.get(&'α'), Some(Alpha::Supra(v)) if *v == ((n > 1) != inv(&length[0]))), "alpha on long captures n > 1");
        } else if is_a(&length[1]) {
            assert!(matches!(al.get(&'α'), Some(Alpha::Supra(v)) if *v == ((n > 2) != inv(&length[1]))), "alpha on overlong captures n > 2");
        } else {
            assert!(al.is_empty());
        }
    }
}

// ---- C07: %:[alpha stress] > [alpha stress] must leave the syllable's stress alone -- one harness per stress kind
fn alpha_stress_identity(s0: StressKind) {
    let sy0 = mk_syll(&[], s0, kani::any());
    let sr = mk_subrule();
    let stress = [Some(ModKind::Alpha(AlphaMod::Alpha('α'))), None];
    let m = sr.match_stress(&stress, &sy0);
    assert!(matches!(m, Ok(true)));
    let mut sy = sy0.clone();
    let mods = SupraSegs { stress, length: [None, None], tone: None };
    let r = sy.apply_syll_mods(&sr.alphas, &mods, pos0());
    assert!(r.is_ok());
    assert!(sy.stress == s0, "C07: stress copied by an alpha onto the syllable it was read from is unchanged");
    assert!(sy.tone == sy0.tone);
}
//% props=C07 tier=quick kind=P pair=SubRule::match_stress,Syllable::apply_syll_mods clause="C07 stress alpha identity, primary"
#[kani::proof]
#[kani::unwind(5)]
fn k7_alpha_stress_identity_primary() { alpha_stress_identity(StressKind::Primary) }
//% props=C07 tier=quick kind=P pair=SubRule::match_stress,Syllable::apply_syll_mods clause="C07 stress alpha identity, unstressed"
#[kani::proof]
#[kani::unwind(5)]
fn k7_alpha_stress_identity_unstressed() { alpha_stress_identity(StressKind::Unstressed) }
//% props=C07 tier=quick kind=P pair=SubRule::match_stress,Syllable::apply_syll_mods clause="C07 stress alpha identity, secondary"
#[kani::proof]
#[kani::unwind(5)]
fn k7_alpha_stress_identity_secondary() { alpha_stress_identity(StressKind::Secondary) }

// =====================================================================================
// C03 mechanisms: the `#` and `$` boundary tests of context_match; Word::reverse vs SegPos::reversed
// =====================================================================================
fn shape_word() -> (Word, [Segment; 5]) {
    // two syllables of 2 and 3 segments, all segments symbolic
    let s = [any_wf_segment(), any_wf_segment(), any_wf_segment(), any_wf_segment(), any_wf_segment()];
    let w = mk_word(vec![mk_syll(&[s[0], s[1]], any_stress(), kani::any()), mk_syll(&[s[2], s[3], s[4]], any_stress(), kani::any())]);
    (w, s)
}

//% props=C03 tier=quick kind=B bound="one word shape (2 syllables of 2 and 3 segments), all positions with indices <= 4" timeout=900 pair=SubRule::context_match,SubRule::context_match_set,Word::out_of_bounds,SegPos::at_syll_start,SegPos::at_word_start clause="`#` in an environment is the out-of-bounds test, `$` is segment index 0 (and not the word start when inserting before)"
#[kani::proof]
#[kani::unwind(7)]
fn k3b_context_boundaries() {
    let (w, _) = shape_word();
    let sr = mk_subrule();
    let si: usize = kani::any();
    let gi: usize = kani::any();
    kani::assume(si <= 4 && gi <= 4);
    let p0 = SegPos::new(si, gi);
    let inb = (si == 0 && gi < 2) || (si == 1 && gi < 3);
    let fwd: bool = kani::any();
    let ins: bool = kani::any();
    let wb = [Item::new(ParseElement::WordBound, pos0())];
    let mut idx = 0usize;
    let mut p = p0;
    let r = sr.context_match(&wb, &mut idx, &w, &mut p, fwd, ins);
    assert!(matches!(r, Ok(b) if b == !inb), "`#` matches exactly the out-of-bounds positions");
    assert!(p == p0 && idx == 0, "`#` consumes nothing");
    let sb = [Item::new(ParseElement::SyllBound, pos0())];
    let mut p2 = p0;
    let r2 = sr.context_match(&sb, &mut idx, &w, &mut p2, fwd, ins);
    let want = gi == 0 && !(ins && si == 0);
    assert!(matches!(r2, Ok(b) if b == want), "`$` matches exactly at segment index 0 (not at the word start when inserting before)");
    assert!(p2 == p0 && idx == 0, "`$` consumes nothing");
    // the same two boundary tests as members of a set `{.., #}` / `{.., $}` (duplicated arms in context_match_set)
    let mut p3 = p0;
    let r3 = sr.context_match_set(&wb, &w, &mut p3, fwd);
    assert!(matches!(r3, Ok(b) if b == !inb), "`#` as a set member matches exactly the out-of-bounds positions");
    let mut p4 = p0;
    let r4 = sr.context_match_set(&sb, &w, &mut p4, fwd);
    assert!(matches!(r4, Ok(b) if b == (gi == 0)), "`$` as a set member matches exactly at segment index 0, also at the word edges");
    assert!(p3 == p0 && p4 == p0, "a boundary in a set consumes nothing");
}


// =====================================================================================
// Modular (stub-by-contract) versions: the callee proved for ALL words in the Verus kernels
// `supras` / `positions` is replaced by an arbitrary value allowed by its contract, which makes the
// caller's harness independent of the word's shape -> complete instead of bounded.
// =====================================================================================
static mut ANY_LEN: usize = 1;
static mut ANY_OOB: bool = false;
/// contract of Word::seg_length_at (Verus: seg_length_at / get_seg_length_at.run, .bounds): some run length >= 1
fn stub_seg_length_at(_w: &Word, _p: SegPos) -> usize { unsafe { ANY_LEN } }
/// contract of Word::out_of_bounds (Verus: out_of_bounds.is_word_boundary_test): a boolean function of (word, position)
fn stub_out_of_bounds(_w: &Word, _p: SegPos) -> bool { unsafe { ANY_OOB } }
/// in_bounds is the complement (Verus: law.bounds_are_complements)
fn stub_in_bounds(_w: &Word, _p: SegPos) -> bool { unsafe { !ANY_OOB } }

//% props=C05,C07 tier=quick kind=P timeout=900 confirm_with=k4_match_seg_length pair=SubRule::match_seg_length clause="length matching = len_ok(run length) and the capture rule, for EVERY run length (Word::seg_length_at replaced by its Verus-proved contract)"
#[kani::proof]
#[kani::unwind(5)]
#[kani::stub(crate::word::Word::seg_length_at, stub_seg_length_at)]
fn k4_match_seg_length_modular() {
    let n: usize = kani::any();
    kani::assume(n >= 1);
    unsafe { ANY_LEN = n; }
    let w = mk_word(Vec::new());
    let sr = mk_subrule();
    let bound: Option<Alpha> = if kani::any() { let x = any_alpha_value(); sr.alphas.borrow_mut().insert('α', x.clone()); Some(x) } else { None };
    let length = [any_supra_slot(), any_supra_slot()];
    let pos = SegPos::new(kani::any(), kani::any());
    let r = sr.match_seg_length(&w, &length, &pos);
    let mut bnd = bound.clone();
    let mut want = true;
    match slot_truth(&length[0], &bnd) {
        None => {}
        Some(Some(t)) => want = want && (if t { n >= 2 } else { n <= 1 }),
        Some(None) => { let inv = matches!(length[0], Some(ModKind::Alpha(AlphaMod::InvAlpha(_)))); bnd = Some(Alpha::Supra((n > 1) != inv)); }
    }
    if want {
        match slot_truth(&length[1], &bnd) {
            None => {}
            Some(Some(t)) => want = want && (if t { n >= 3 } else { n <= 2 }),
            Some(None) => {}
        }
    }
    assert!(matches!(r, Ok(x) if x == want), "length matching table for every run length");
    if bound.is_none() && want {
        let inv = |m: &Option<ModKind>| matches!(m, Some(ModKind::Alpha(AlphaMod::InvAlpha(_))));
        let is_a = |m: &Option<ModKind>| matches!(m, Some(ModKind::Alpha(_)));
        let al = sr.alphas.borrow();
        if is_a(&length[0]) {
            assert!(matches!(al.get(&'α'), Some(Alpha::Supra(v)) if *v == ((n > 1) != inv(&length[0]))), "alpha on long captures n > 1");
        } else if is_a(&length[1]) {
            assert!(matches!(al.get(&'α'), Some(Alpha::Supra(v)) if *v == ((n > 2) != inv(&length[1]))), "alpha on overlong captures n > 2");
        }
    }
    kani::cover!(n > 3 && want);
}

//% props=C03 tier=quick kind=P timeout=900 confirm_with=k3b_context_boundaries pair=SubRule::context_match,SubRule::context_match_set clause="`#` is exactly the out-of-bounds test and `$` exactly segment index 0 (not the word start when inserting before), alone and as set members, for EVERY word and position (Word::out_of_bounds replaced by its Verus-proved contract)"
#[kani::proof]
#[kani::unwind(5)]
#[kani::stub(crate::word::Word::out_of_bounds, stub_out_of_bounds)]
#[kani::stub(crate::word::Word::in_bounds, stub_in_bounds)]
fn k3b_context_boundaries_modular() {
    let oob: bool = kani::any();
    unsafe { ANY_OOB = oob; }
    let w = mk_word(Vec::new());
    let sr = mk_subrule();
    let si: usize = kani::any();
    let gi: usize = kani::any();
    let p0 = SegPos::new(si, gi);
    let fwd: bool = kani::any();
    let ins: bool = kani::any();
    let wb = [Item::new(ParseElement::WordBound, pos0())];
    let sb = [Item::new(ParseElement::SyllBound, pos0())];
    let mut idx = 0usize;
    let mut p = p0;
    assert!(matches!(sr.context_match(&wb, &mut idx, &w, &mut p, fwd, ins), Ok(b) if b == oob), "`#` == out_of_bounds(pos)");
    let mut p2 = p0;
    assert!(matches!(sr.context_match(&sb, &mut idx, &w, &mut p2, fwd, ins), Ok(b) if b == (gi == 0 && !(ins && si == 0))), "`$` == segment index 0 (and not word start when inserting before)");
    let mut p3 = p0;
    assert!(matches!(sr.context_match_set(&wb, &w, &mut p3, fwd), Ok(b) if b == oob), "`#` in a set == out_of_bounds(pos)");
    let mut p4 = p0;
    assert!(matches!(sr.context_match_set(&sb, &w, &mut p4, fwd), Ok(b) if b == (gi == 0)), "`$` in a set == segment index 0");
    assert!(p == p0 && p2 == p0 && p3 == p0 && p4 == p0 && idx == 0, "boundaries consume nothing");
}

// =====================================================================================
// C14 at the SubRule wrappers: prosodic modifiers never touch segments or other syllables;
// segmental modifiers never touch stress, tone, syllable count or other segments
// =====================================================================================
fn subrule_apply_syll_mods_case(idx: usize) {
    let s = [any_wf_segment(), any_wf_segment(), any_wf_segment()];
    let st = [any_stress(), any_stress()];
    let tn: [u16; 2] = [kani::any(), kani::any()];
    let mut w = mk_word(vec![mk_syll(&[s[0], s[1]], st[0], tn[0]), mk_syll(&[s[2]], st[1], tn[1])]);
    let sr = mk_subrule();
    let mods = SupraSegs { stress: [any_binmod(), any_binmod()], length: [None, None], tone: kani::any() };
    let var: Option<usize> = None;
    let r = sr.apply_syll_mods(&mut w, idx, &mods, &var, pos0());
    assert!(w.syllables.len() == 2 && w.syllables[0].segments.len() == 2 && w.syllables[1].segments.len() == 1, "no syllable or segment added or dropped");
    assert!(w.syllables[0].segments[0] == s[0] && w.syllables[0].segments[1] == s[1] && w.syllables[1].segments[0] == s[2], "C14: prosody-only change never alters a segment");
    let other = 1 - idx;
    assert!(w.syllables[other].stress == st[other] && w.syllables[other].tone == tn[other], "the other syllable keeps its stress and tone");
    match stress_target(bin(mods.stress[0]), bin(mods.stress[1]), st[idx]) {
        Some(t) => {
            assert!(r.is_ok());
            assert!(w.syllables[idx].stress == t && w.syllables[idx].tone == match mods.tone { Some(x) => x, None => tn[idx] }, "target syllable follows the table");
            if var.is_some() { assert!(matches!(sr.variables.borrow().get(&1), Some(VarKind::Syllable(sy)) if *sy == w.syllables[idx]), "the variable captures the updated syllable"); }
        }
        None => assert!(r.is_err() && w.syllables[idx].stress == st[idx] && w.syllables[idx].tone == tn[idx]),
    }
}

//% props=C14,C05 tier=quick kind=B bound="one word shape: syllables of 2 and 1 segments; target = first syllable; no variable" timeout=900 pair=SubRule::apply_syll_mods,Syllable::apply_syll_mods clause="a stress/tone modifier on one syllable changes only that syllable's stress/tone (per the table); every segment and the other syllable are untouched"
#[kani::proof]
#[kani::unwind(5)]
fn k14_subrule_apply_syll_mods_first() { subrule_apply_syll_mods_case(0) }
//% props=C14,C05 tier=quick kind=B bound="one word shape: syllables of 2 and 1 segments; target = second syllable; no variable" timeout=900 pair=SubRule::apply_syll_mods,Syllable::apply_syll_mods clause="as above, second syllable"
#[kani::proof]
#[kani::unwind(5)]
fn k14_subrule_apply_syll_mods_second() { subrule_apply_syll_mods_case(1) }

//% props=C05 tier=quick kind=P timeout=900 confirm_with=k4_match_supr_real pair=SubRule::match_supr_mod_seg clause="a suprasegmental modifier block matches iff its stress, length and tone parts all match (binary slots), for every run length and syllable state"
#[kani::proof]
#[kani::unwind(5)]
#[kani::stub(crate::word::Word::seg_length_at, stub_seg_length_at)]
fn k4_match_supr_mod_seg_modular() {
    let n: usize = kani::any();
    kani::assume(n >= 1);
    unsafe { ANY_LEN = n; }
    let s0 = any_stress();
    let t0: u16 = kani::any();
    let w = mk_word(vec![mk_syll(&[], s0, t0)]);
    let sr = mk_subrule();
    let mods = SupraSegs { stress: [any_binmod(), any_binmod()], length: [any_binmod(), any_binmod()], tone: kani::any() };
    let r = sr.match_supr_mod_seg(&w, &mods, &SegPos::new(0, kani::any()));
    let want = stress_ok(bin(mods.stress[0]), bin(mods.stress[1]), s0)
        && len_ok(bin(mods.length[0]), bin(mods.length[1]), n)
        && (match mods.tone { Some(t) => t == t0, None => true });
    assert!(matches!(r, Ok(b) if b == want), "stress AND length AND tone");
}

//% props=C05 tier=quick kind=B bound="one syllable holding a run of 2 identical segments" timeout=900 pair=SubRule::match_supr_mod_seg,Word::seg_length_at clause="the same on a real word (run of 2), executing the real Word::seg_length_at"
#[kani::proof]
#[kani::unwind(5)]
fn k4_match_supr_real() {
    let a = any_wf_segment();
    let s0 = any_stress();
    let t0: u16 = kani::any();
    let w = mk_word(vec![mk_syll(&[a, a], s0, t0)]);
    let sr = mk_subrule();
    let mods = SupraSegs { stress: [any_binmod(), any_binmod()], length: [any_binmod(), any_binmod()], tone: kani::any() };
    let r = sr.match_supr_mod_seg(&w, &mods, &SegPos::new(0, 0));
    let want = stress_ok(bin(mods.stress[0]), bin(mods.stress[1]), s0)
        && len_ok(bin(mods.length[0]), bin(mods.length[1]), 2)
        && (match mods.tone { Some(t) => t == t0, None => true });
    assert!(matches!(r, Ok(b) if b == want), "stress AND length AND tone on a long segment");
}
