// ---- lexer-level harnesses (concrete spellings: control data must be concrete for CBMC)

//% props=C10 tier=thorough kind=B bound="three concrete lines: empty, three spaces, `;; x`" timeout=900 pair=Lexer::get_line,Lexer::get_next_token,Lexer::get_comment clause="the lexer turns a blank line into [Eol] and a comment-only line into [Comment, Eol]"
#[kani::proof]
#[kani::unwind(8)]
fn k10_lex_blank_lines() {
    let empty: [char; 0] = [];
    let t = Lexer::new(&empty, 0, 0).get_line();
    assert!(matches!(&t, Ok(v) if v.len() == 1 && v[0].kind == TokenKind::Eol));
    let sp = [' ', ' ', ' '];
    let t2 = Lexer::new(&sp, 0, 0).get_line();
    assert!(matches!(&t2, Ok(v) if v.len() == 1 && v[0].kind == TokenKind::Eol));
    let c = [';', ';', ' ', 'x'];
    let t3 = Lexer::new(&c, 0, 0).get_line();
    assert!(matches!(&t3, Ok(v) if v.len() == 2 && v[0].kind == TokenKind::Comment && v[1].kind == TokenKind::Eol));
}
