//@ kernel envlist serves=C13,C02
//@ include specenv.v.rs
//@ item src/parser.rs impl Parser members=get_envs,get_env
//@ stub Parser::get_envs

//@ pre
//@ end
//@ post
/// the cursor is inside the list or just past it on the synthetic end-of-line token
spec fn cursor_in_or_eol(p: Parser) -> bool {
    p.pos <= p.token_list@.len() && (p.pos < p.token_list@.len() || p.curr_tkn.kind == TokenKind::Eol)
}
//@ end
//@ contract Parser::get_envs ret=r
    ensures
        // ASSUMED about the opaque environment-set parser: it moves the cursor with advance() only and does not touch the list
        r is Ok ==> cursor_in_or_eol(*final(self)) && 1 <= final(self).pos,
        final(self).token_list == old(self).token_list && final(self).group == old(self).group && final(self).line == old(self).line,
        // ASSUMED (read off the code: ExpectedArrow / ExpectedEndLine are constructed in Parser::rule only)
        r matches Err(e) ==> !(e is ExpectedEndLine) && !(e is ExpectedArrow),
//@ end
//@ attr Parser::get_env
#[verifier::exec_allows_no_decreases_clause]
//@ end
//@ contract Parser::get_env ret=r
    requires 1 <= old(self).pos, cursor_in_or_eol(*old(self)), old(self).token_list@.len() < usize::MAX - 4,
    ensures
        // these are exactly the clauses the `follow` kernel ASSUMES of its opaque get_env
        /*#envlist.cursor_stays_on_the_list C13,C02*/ r is Ok ==> cursor_in_or_eol(*final(self)),
        /*#envlist.token_list_untouched C13,C02*/ final(self).token_list == old(self).token_list,
        /*#envlist.rule_level_errors_are_not_raised_below C13*/ r matches Err(e) ==> !(e is ExpectedEndLine) && !(e is ExpectedArrow),
        // an environment list is never empty
        /*#envlist.at_least_one_environment C02*/ r matches Ok(v) ==> v@.len() > 0,
//@ end
//@ loop Parser::get_env 0
    invariant self.token_list == old(self).token_list, self.token_list@.len() < usize::MAX - 4,
    ensures envs@.len() > 0, cursor_in_or_eol(*self),
//@ end
