//@ kernel follow serves=C13
//@ include specenv.v.rs
//@ item src/parser.rs impl Parser members=peek_expect,eat,eat_expect,get_empty,get_output_els,get_output,get_input_els,get_input,get_env,get_context,get_except_block,rule
//@ item src/rule.rs impl Rule members=new
//@ stub Parser::get_output_els
//@ stub Parser::get_input_els
//@ stub Parser::get_env

//@ pre
//@ end
//@ post
/// the parser's cursor invariant between grammar functions: the cursor is on a token of the list
spec fn cursor_ok(p: Parser) -> bool { p.pos < p.token_list@.len() && p.token_list@.len() < usize::MAX - 4 }
//@ end
//@ contract Parser::peek_expect ret=r
    ensures r == (self.curr_tkn.kind == knd),
//@ end
//@ contract Parser::eat ret=r
    requires old(self).pos < usize::MAX - 1,
    ensures r == old(self).curr_tkn, advanced(*old(self), *final(self)),
//@ end
//@ proof_start Parser::eat
    axiom_token_clone();
//@ end
//@ contract Parser::eat_expect ret=r
    requires old(self).pos < usize::MAX - 1,
    ensures (old(self).curr_tkn.kind == knd) ==> (r == Some(old(self).curr_tkn) && advanced(*old(self), *final(self))),
        !(old(self).curr_tkn.kind == knd) ==> (r is None && *final(self) == *old(self)),
//@ end
//@ contract Parser::get_empty ret=r
    requires old(self).pos < usize::MAX - 1,
    ensures (old(self).curr_tkn.kind == TokenKind::Star || old(self).curr_tkn.kind == TokenKind::EmptySet) ==> (r is Some && advanced(*old(self), *final(self))),
        !(old(self).curr_tkn.kind == TokenKind::Star || old(self).curr_tkn.kind == TokenKind::EmptySet) ==> (r is None && *final(self) == *old(self)),
//@ end
//@ contract Parser::get_output_els ret=r
    // precondition and clauses are PROVED for the real bodies of get_output_els / get_output_el in kernel `outels`
    // (there with get_syll, get_struct, get_set, get_seg, get_var opaque)
    requires synced(*old(self)),
    ensures r is Ok ==> synced(*final(self)),
        final(self).token_list == old(self).token_list,
        r matches Err(e) ==> !(e is DeleteErr) && !(e is MetathErr) && !(e is ExpectedEndLine) && !(e is ExpectedArrow),
//@ end
//@ attr Parser::get_output
#[verifier::exec_allows_no_decreases_clause]
#[verifier::loop_isolation(false)]
//@ end
//@ contract Parser::get_output ret=r
    requires synced(*old(self)),
    ensures
        /*#follow.a_comment_may_follow_a_deletion_output C13*/ r matches Err(RuleSyntaxError::DeleteErr(t)) ==> t.kind != TokenKind::Comment,
        /*#follow.a_comment_may_follow_a_metathesis_output C13*/ r matches Err(RuleSyntaxError::MetathErr(t)) ==> t.kind != TokenKind::Comment,
        // `//` is the documented synonym of `|`: wherever `|` may follow, `//` may
        /*#follow.a_double_slash_may_follow_a_deletion_output C13*/ r matches Err(RuleSyntaxError::DeleteErr(t)) ==> t.kind != TokenKind::DubSlash,
        /*#follow.a_double_slash_may_follow_a_metathesis_output C13*/ r matches Err(RuleSyntaxError::MetathErr(t)) ==> t.kind != TokenKind::DubSlash,
        /*#follow.get_output_keeps_the_cursor_and_the_list C02,C13*/ (r is Ok ==> cursor_loose(*final(self))) && final(self).token_list == old(self).token_list,
        /*#follow.get_output_raises_no_rule_level_error C13*/ r matches Err(e) ==> !(e is ExpectedEndLine) && !(e is ExpectedArrow),
//@ end
//@ loop Parser::get_output 0
    invariant synced(*self), self.token_list == old(self).token_list,
//@ end
//@ proof_start Parser::get_output
    axiom_token_clone();
//@ end

// ---------------------------------------------------------------------------------------------------------------
// the arrow and the end of the rule: Parser::get_input, Parser::rule, get_context, get_except_block (real code);
// the element parsers get_input_els and the environment parser get_env are opaque
//@ post
/// the environment grammar behind `/`, `|` and `//` is opaque: an arbitrary function of the parser state
pub uninterp spec fn env_spec(p: Parser) -> (Result<Vec<Item>, RuleSyntaxError>, Parser);
/// the input element grammar is opaque
pub uninterp spec fn inels_spec(p: Parser) -> (Result<Vec<Item>, RuleSyntaxError>, Parser);
spec fn is_arrow(k: TokenKind) -> bool { k == TokenKind::Arrow || k == TokenKind::GreaterThan }
spec fn ends_line(k: TokenKind) -> bool { k == TokenKind::Eol || k == TokenKind::Comment }
/// the cursor is on a token of the list and `curr_tkn` is that token; the list ends with the lexer's end-of-line token
/// (so a token that is not Eol is never the last one) -- the state in which the lexer hands a line to Parser::rule
spec fn synced(p: Parser) -> bool {
    &&& p.pos < p.token_list@.len() && p.token_list@.len() < usize::MAX - 4
    &&& p.curr_tkn == p.token_list@[p.pos as int]
    &&& p.token_list@[p.token_list@.len() - 1].kind == TokenKind::Eol
}
spec fn cursor_loose(p: Parser) -> bool {
    (p.pos < p.token_list@.len() || p.curr_tkn.kind == TokenKind::Eol) && p.pos <= p.token_list@.len() && p.token_list@.len() < usize::MAX - 4
}
//@ end
//@ contract Rule::new ret=r
    ensures r.input == i && r.output == o && r.context == c && r.except == e,
//@ end
//@ contract Parser::get_input_els ret=r
    // the precondition and every clause after the first are PROVED for the real body of get_input_els in kernel `inels`
    // (there with get_term opaque); only "it is a function of the parser state" is assumed here
    requires synced(*old(self)),
    ensures (r, *final(self)) == inels_spec(*old(self)),
        r is Ok ==> synced(*final(self)),
        final(self).token_list == old(self).token_list,
        r matches Err(e) ==> !(e is InsertErr) && !(e is ExpectedEndLine) && !(e is ExpectedArrow),
        r matches Ok(v) && v@.len() == 0 ==> *final(self) == *old(self),
//@ end
//@ contract Parser::get_env ret=r
    // the precondition and the three clauses after the first are PROVED for the real body of get_env in kernel `envlist`
    // (there with get_envs / get_env_elements opaque); only "it is a function of the parser state" is assumed here
    requires 1 <= old(self).pos, cursor_loose(*old(self)),
    ensures (r, *final(self)) == env_spec(*old(self)),
        r is Ok ==> cursor_loose(*final(self)),
        final(self).token_list == old(self).token_list,
        r matches Err(e) ==> !(e is ExpectedEndLine) && !(e is ExpectedArrow),
//@ end
//@ contract Parser::get_context ret=r
    requires cursor_loose(*old(self)),
    ensures
        /*#follow.a_slash_opens_the_context C13*/ old(self).curr_tkn.kind == TokenKind::Slash ==> (exists|p: Parser| advanced(*old(self), p) && (r, *final(self)) == #[trigger] env_spec(p)),
        old(self).curr_tkn.kind != TokenKind::Slash ==> (r matches Ok(v) && v@.len() == 0 && *final(self) == *old(self)),
        (r is Ok ==> cursor_loose(*final(self))) && final(self).token_list == old(self).token_list,
        r matches Err(e) ==> !(e is ExpectedEndLine) && !(e is ExpectedArrow),
//@ end
//@ contract Parser::get_except_block ret=r
    requires cursor_loose(*old(self)),
    ensures
        // `|` and `//` are the documented synonyms: both open the exception block, and the block is the same function of what follows
        /*#follow.pipe_and_double_slash_open_the_same_exception_block C13*/ (old(self).curr_tkn.kind == TokenKind::Pipe || old(self).curr_tkn.kind == TokenKind::DubSlash)
            ==> (exists|p: Parser| advanced(*old(self), p) && (r, *final(self)) == #[trigger] env_spec(p)),
        !(old(self).curr_tkn.kind == TokenKind::Pipe || old(self).curr_tkn.kind == TokenKind::DubSlash) ==> (r matches Ok(v) && v@.len() == 0 && *final(self) == *old(self)),
        (r is Ok ==> cursor_loose(*final(self))) && final(self).token_list == old(self).token_list,
        r matches Err(e) ==> !(e is ExpectedEndLine) && !(e is ExpectedArrow),
//@ end
//@ attr Parser::get_input
#[verifier::exec_allows_no_decreases_clause]
#[verifier::loop_isolation(false)]
//@ end
//@ contract Parser::get_input ret=r
    // the first token of a rule line is a token the lexer made, and the lexer never makes a token with an empty spelling
    // (precondition, not proved: the lexers are outside Verus) -- this is what `value.chars().next().unwrap()` relies on
    requires synced(*old(self)), old(self).curr_tkn.value@.len() > 0,
    ensures
        // `>`, `=>` and `->` are the documented synonyms of the arrow: whichever is written may follow an insertion input
        /*#follow.either_arrow_may_follow_an_insertion_input C13*/ r matches Err(RuleSyntaxError::InsertErr(t)) ==> !is_arrow(t.kind) && t.kind != TokenKind::Comma,
        r is Ok ==> synced(*final(self)),
        final(self).token_list == old(self).token_list,
        r matches Err(e) ==> !(e is ExpectedEndLine) && !(e is ExpectedArrow),
//@ end
//@ loop Parser::get_input 0
    invariant synced(*self), self.token_list == old(self).token_list, inputs@.len() == 0 ==> *self == *old(self),
//@ end
//@ proof_start Parser::get_input
    axiom_token_clone();
//@ end
//@ contract Parser::rule ret=r
    requires synced(*old(self)), old(self).curr_tkn.value@.len() > 0,
    ensures
        /*#follow.either_arrow_is_the_arrow C13*/ r matches Err(RuleSyntaxError::ExpectedArrow(t)) ==> !is_arrow(t.kind),
        // a trailing comment ends a rule wherever the end of the line does
        /*#follow.a_comment_ends_a_rule_like_the_end_of_line C13*/ r matches Err(RuleSyntaxError::ExpectedEndLine(t)) ==> !ends_line(t.kind),
//@ end
//@ proof_start Parser::rule
    axiom_token_clone();
//@ end
//@ proof_at Parser::rule 0 return Err(RuleSyntaxError::ExpectedEndLine
    // `/`, `|` and `//` may all follow the output: none of them is reported as "expected end of line" before it has been read
    /*#follow.slash_pipe_and_double_slash_may_follow_the_output C13*/ assert(self.curr_tkn.kind != TokenKind::Slash && self.curr_tkn.kind != TokenKind::Pipe && self.curr_tkn.kind != TokenKind::DubSlash);
//@ end
