// ---- helpers to build Words / Syllables in harnesses (Word has a private field)
pub(crate) fn mk_syll(segs: &[Segment], stress: StressKind, tone: u16) -> Syllable {
    let mut s = Syllable::new();
    let mut i = 0;
    while i < segs.len() { s.segments.push_back(segs[i]); i += 1; }
    s.stress = stress;
    s.tone = tone;
    s
}
pub(crate) fn mk_word(sylls: Vec<Syllable>) -> Word { Word { syllables: sylls, americanist: false } }
pub(crate) fn any_stress() -> StressKind {
    let k: u8 = kani::any();
    kani::assume(k < 3);
    match k { 0 => StressKind::Primary, 1 => StressKind::Secondary, _ => StressKind::Unstressed }
}

// vacuity canary for the Kani side: this assertion is false and MUST be reported as failing
// (thorough tier; if it ever "proves", the pipeline is not checking anything -> undecided)
//% props=C02,C03,C04,C05,C07,C08,C10,C12,C13,C14,C18 tier=thorough kind=P expect=fail clause="canary: must fail"
#[kani::proof]
#[kani::unwind(2)]
fn k0_canary_must_fail() {
    let x: u8 = kani::any();
    assert!(x != 77, "canary");
}

// ---- C08 / C04: the alias-side copy of matrix application (Word::alias_apply_mods) obeys the same spec
use crate::seg::verif_kani::{any_wf_segment, any_bin_nodes, any_bin_feats, expected, view7, wf_seg, POS};

//% props=C08,C04 tier=quick kind=P timeout=1200 pair=Word::alias_apply_mods clause="deromaniser modifiers: same whole-view result as a rule matrix, bundle stays well formed, +/-major node and +place are errors"
#[kani::proof]
#[kani::unwind(28)]
fn k8_alias_apply_mods() {
    let o = any_wf_segment();
    let mods = Modifiers { nodes: any_bin_nodes(), feats: any_bin_feats(), suprs: SupraSegs::new() };
    let w = mk_word(Vec::new());
    let mut s = o;
    let r = w.alias_apply_mods(&mut s, &mods, AliasPosition { kind: crate::alias::AliasKind::Deromaniser, line: 0, start: 0, end: 1 });
    let bad = mods.nodes[0].is_some() || mods.nodes[1].is_some() || mods.nodes[2].is_some() || mods.nodes[3] == POS;
    assert!(r.is_err() == bad, "errors exactly for +/-root, manner, laryngeal and +place");
    if r.is_ok() {
        let exp = expected(&o, &mods.nodes, &mods.feats);
        let got = view7(&s);
        let mut k = 0;
        while k < 7 { if !exp.contradictory[k] { assert!(got[k] == exp.view[k], "alias modifiers = matrix application"); } k += 1; }
        assert!(wf_seg(&s), "bundle stays well formed (an emptied place is absent, no stray bits)");
    }
}
