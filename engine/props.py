"""Per-property configuration of the check driver (what is run, what is assumed, what is glue)."""

STANDING_TRUST = [
    'rustc 1.98.1 front end as used by Verus; Verus 0.2026.09.13 VC generation; Z3 as shipped with Verus',
    'vstd specifications of Vec, VecDeque, Option, slices, integer operators',
    'Kani 0.68.0 / CBMC 6.11.0 / CaDiCaL for the Kani harnesses',
    '/verif/engine/extract.py rewrite rules R1-R5 (self-checked byte-for-byte against /repo on every run)',
]
STANDING_ASSUMPTIONS = [
    'Option::unwrap_unchecked(o) requires o.is_some() and returns the payload (its documented safety contract; assume_specification)',
    'derive(PartialEq) on the field-less enum NodeKind is structural equality (assume_specification for NodeKind::eq)',
    'machine integers are machine integers in both tools: overflow is an obligation, not assumed away',
    'Kani builds: std::collections::HashMap<char|usize,_> in rule/subrule/seg/syll/parser/word.rs is replaced by the association list contracts/kani/verif_map.rs (finite map under new/get/insert/clear/clone; the crate never iterates these maps)',
    'inputs satisfy the stated type invariants (wf(Place), wf(Segment), in-range node values); values reachable only through DerefMut/serde that violate them are outside every contract',
]

PROPS = {
    'C18': dict(
        level='proof',
        kernels=['segment'],
        trusted_base=[],
        assumptions=['only in-range sub-node values are specified (mask <= 3 / <= 63): `(m as u16) << off` spills into presence bits otherwise, and the property quantifies over values in range'],
        glue=[],
        level_text='Proof for all inputs: every get/set/match law of Place and Segment is a postcondition (or a law function verified against those postconditions) on the real accessor code, discharged by Verus/Z3 with bit-vector lemmas, and independently by complete (loop-free, full-domain) Kani harnesses over all 2^16+1 place values x all root/manner/laryngeal bytes, which also supply replayable counterexamples.',
        level_note='Trusted: Verus/Z3, Kani/CBMC, the extractor rewrite rules R1-R5 (self-checked). Assumed: Option::unwrap_unchecked safety contract; derive(PartialEq) on NodeKind is structural. Only in-range sub-node values (<=3 / <=63) are specified, as in the property text.',
        technique='contract-based deductive verification (Verus requires/ensures on extracted real functions + complete Kani/CBMC harnesses with native counterexample replay)',
        design_ref='DESIGN.md section 6 / C18',
        explanation='get/set/match laws of Place and Segment as postconditions of the real accessor functions (Verus, bit-vector lemmas) and as complete loop-free Kani harnesses over all 2^16+1 places x all bytes',
    ),

    'C04': dict(
        level='proof',
        kernels=['segment'],
        trusted_base=[],
        assumptions=['the interpreter calls these leaf functions with the position it selected (position selection, application to every copy of a long segment and feature-name lexing are glue: C03/C13)'],
        glue=['SubRule::apply / input_match_at / transform / substitution choose WHICH segment is matched or rewritten', 'Syllable::apply_seg_mods loop over the copies of a long segment (Kani: frame only)', 'feature-name lexing (C13)'],
        level_text='Proof at segment level, for all well-formed segments and all matrices: Segment::apply_seg_mods and the SubRule match functions are checked against a whole-view spec function taken from the property text (named features get the named value, +F creates an absent sub-node with its other features negative, -F on an absent node does nothing, -node/-place removes, everything unnamed is kept; alphas capture and re-apply the value or its inverse) by complete Kani/CBMC harnesses (fixed 8- and 26-trip loops fully unwound, unwinding assertions on), on top of the Verus-proved accessor contracts and feature->bit table.',
        level_note='Decides matrix semantics of the leaf functions only; which position the interpreter applies them to is not under contract. Kani builds replace the binding-table HashMap by a loop-free association list.',
        technique='contract-based deductive verification (Verus contracts on accessors + complete Kani/CBMC harnesses of apply_seg_mods / match_* against a spec function of the view)',
        design_ref='DESIGN.md section 6 / C04',
        explanation='M1 matching, P1-P5 setting, A1/A2 alpha capture and application as postconditions over the whole segment view',
    ),
    'C05': dict(
        level='proof',
        kernels=['supras'],
        trusted_base=[],
        assumptions=['ModKind::as_bool contract is assumed in the Verus kernel and proved for the real body by Kani harness k4_as_bool',
                     'apply_supras is specified from the position it is given; that callers pass the START of a run (run_start) is unchecked at call sites (substitution next_pos re-entering the tail of a long segment is NOT detected)',
                     'run length <= 128 (i8 length counter) is a precondition of apply_supras; see C02 finding'],
        glue=['SubRule::substitution / transform cursor logic (which position apply_supras is called at)', 'Word::seg_length_at callers'],
        level_text='Proof for all inputs: the manual\'s three-way tables for length, stress and tone are spec functions (len_ok/len_target, stress_ok/stress_target); Syllable::get_seg_length_at, apply_supras (every one of its eight resize loops, for syllables of any length) and apply_syll_mods are verified against them by Verus with loop invariants; the set-then-match laws are lemmas over the tables; the matching side (match_stress, match_tone) is proved by complete Kani harnesses; match_seg_length by a Kani harness bounded to 4-segment syllables (listed as bounded).',
        level_note='The defect reported in the property text (V > [+long] over-lengthening an already long vowel) lives in the scan cursor of SubRule::substitution, outside every contract here, and is not detected by this check.',
        technique='contract-based deductive verification (Verus requires/ensures/loop invariants on extracted Syllable functions + complete Kani/CBMC harnesses for the match tables)',
        design_ref='DESIGN.md section 6 / C05',
        explanation='length / stress / tone tables as postconditions; unbounded in syllable length',
    ),
    'C07': dict(
        level='proof',
        kernels=['supras'],
        trusted_base=[],
        assumptions=['only the alpha half of the property: variables (capture, write-back, comparison in contexts) live in input_match_* / substitution / insert and are not under contract'],
        glue=['variable capture and write-back (SubRule::input_match_*, substitution, insert, context_match_var)', 'that the interpreter applies the output matrix to the element the alpha was read from'],
        level_text='Proof for the alpha half: for every well-formed segment, binding an alpha by matching (feature, node, place; stress) and writing it back onto the same element leaves it unchanged -- complete Kani harnesses composing the real match_* and apply_* functions; the length identity is a Verus lemma over the apply_supras contract and the Kani-proved capture rule. One known finding (secondary stress).',
        level_note='Variables are not covered. Known finding C07-alpha-stress-secondary is reported as KNOWN-FINDING, not as a violation.',
        technique='contract-based deductive verification (composition of Kani-proved match/apply contracts; Verus lemma for length)',
        design_ref='DESIGN.md section 6 / C07',
        explanation='alpha capture -> re-application identities',
    ),
    'C08': dict(
        level='proof',
        kernels=['segment', 'supras'],
        trusted_base=[],
        assumptions=['cardinals.json / diacritics.json segments are assumed well formed (data, not code; not checked here)', 'only the feature-bundle clause: "no empty syllable", "at least one syllable" and the tone caps live in transform/substitution/concat_tone/Word::setup and are not under contract'],
        glue=['SubRule::transform / substitution / deletion clean-up of empty syllables', 'SubRule::concat_tone, Word::setup tone cap, Parser tone literal'],
        level_text='Proof of the bundle clause as an inductive invariant: wf(Segment) (root, laryngeal <= 7; no payload bits under an absent place sub-node; an empty place is None) is preserved by every function that writes a Segment -- Place setters, set_node, set_feat (Verus), apply_seg_mods incl. alpha copies, apply_diacritic_payload (complete Kani harnesses); apply_supras / apply_syll_mods only copy or delete whole segments (Verus).',
        level_note='Decides only the "feature bundle internally consistent" clause of the property; syllable-count and tone clauses are not decided.',
        technique='contract-based deductive verification (type invariant preserved by every mutator: Verus + complete Kani harnesses)',
        design_ref='DESIGN.md section 6 / C08',
        explanation='wf(Segment) preserved by all segment mutators',
    ),
    'C14': dict(
        level='proof',
        kernels=['supras'],
        trusted_base=[],
        assumptions=['leaf level only: boundary insertion/deletion, $-metathesis and syllable split/merge are inside transform/substitution/insert and not under contract'],
        glue=['SubRule::transform / substitution / insert (boundary handling)', 'Syllable::apply_seg_mods loop (applies Segment::apply_seg_mods to each copy, then apply_supras)'],
        level_text='Proof at the Syllable API: frame clauses of the contracts -- apply_syll_mods never touches segments; apply_supras with only stress/tone modifiers leaves the segment sequence identical, with only length modifiers leaves stress and tone alone (Verus, any syllable length); Segment::apply_seg_mods has no access to prosody (it takes one Segment).',
        level_note='Tier separation is decided for the leaf functions only.',
        technique='contract-based deductive verification (frame postconditions, Verus + Kani)',
        design_ref='DESIGN.md section 6 / C14',
        explanation='frame conditions between the segmental and the prosodic tier',
    ),
}

SOURCE_COMMITS = []
NOT_APPLICABLE = {}
