//@ kernel outels serves=C13,C02
//@ include specenv.v.rs
//@ item src/parser.rs impl Parser members=peek_expect,eat,eat_expect,get_syll_bound,get_syll,get_struct,get_set,get_seg,get_var,get_output_el,get_output_els
//@ stub Parser::get_syll
//@ stub Parser::get_struct
//@ stub Parser::get_set
//@ stub Parser::get_seg
//@ stub Parser::get_var

//@ pre
//@ end
//@ post
/// same predicate as in kernels `follow` and `inels`
spec fn synced(p: Parser) -> bool {
    &&& p.pos < p.token_list@.len() && p.token_list@.len() < usize::MAX - 4
    &&& p.curr_tkn == p.token_list@[p.pos as int]
    &&& p.token_list@[p.token_list@.len() - 1].kind == TokenKind::Eol
}
spec fn not_rule_level(e: RuleSyntaxError) -> bool { !(e is DeleteErr) && !(e is MetathErr) && !(e is ExpectedEndLine) && !(e is ExpectedArrow) }
//@ end
//@ contract Parser::peek_expect ret=r
    ensures r == (self.curr_tkn.kind == knd),
//@ end
//@ contract Parser::eat ret=r
    requires old(self).pos < usize::MAX - 1,
    ensures r == old(self).curr_tkn, advanced(*old(self), *final(self)),
//@ end
//@ proof_start Parser::eat
    axiom_token_clone();
//@ end
//@ contract Parser::eat_expect ret=r
    requires old(self).pos < usize::MAX - 1,
    ensures (old(self).curr_tkn.kind == knd) ==> (r == Some(old(self).curr_tkn) && advanced(*old(self), *final(self))),
        !(old(self).curr_tkn.kind == knd) ==> (r is None && *final(self) == *old(self)),
//@ end
//@ contract Parser::get_syll_bound ret=r
    requires old(self).pos < usize::MAX - 1,
    ensures (old(self).curr_tkn.kind == TokenKind::SyllBoundary) ==> (r is Some && advanced(*old(self), *final(self))),
        !(old(self).curr_tkn.kind == TokenKind::SyllBoundary) ==> (r is None && *final(self) == *old(self)),
//@ end
//@ contract Parser::get_syll ret=r
    ensures
        // ASSUMED about the opaque element parser: it moves the cursor with advance() only and only over real tokens
        (r is Ok && synced(*old(self))) ==> synced(*final(self)),
        final(self).token_list == old(self).token_list,
        // ASSUMED (read off the code: these four are constructed in get_output / rule only)
        r matches Err(e) ==> not_rule_level(e),
//@ end
//@ contract Parser::get_struct ret=r
    ensures
        // ASSUMED about the opaque element parser: it moves the cursor with advance() only and only over real tokens
        (r is Ok && synced(*old(self))) ==> synced(*final(self)),
        final(self).token_list == old(self).token_list,
        // ASSUMED (read off the code: these four are constructed in get_output / rule only)
        r matches Err(e) ==> not_rule_level(e),
//@ end
//@ contract Parser::get_set ret=r
    ensures
        // ASSUMED about the opaque element parser: it moves the cursor with advance() only and only over real tokens
        (r is Ok && synced(*old(self))) ==> synced(*final(self)),
        final(self).token_list == old(self).token_list,
        // ASSUMED (read off the code: these four are constructed in get_output / rule only)
        r matches Err(e) ==> not_rule_level(e),
//@ end
//@ contract Parser::get_seg ret=r
    ensures
        // ASSUMED about the opaque element parser: it moves the cursor with advance() only and only over real tokens
        (r is Ok && synced(*old(self))) ==> synced(*final(self)),
        final(self).token_list == old(self).token_list,
        // ASSUMED (read off the code: these four are constructed in get_output / rule only)
        r matches Err(e) ==> not_rule_level(e),
//@ end
//@ contract Parser::get_var ret=r
    ensures
        // ASSUMED about the opaque element parser: it moves the cursor with advance() only and only over real tokens
        (r is Ok && synced(*old(self))) ==> synced(*final(self)),
        final(self).token_list == old(self).token_list,
        // ASSUMED (read off the code: these four are constructed in get_output / rule only)
        r matches Err(e) ==> not_rule_level(e),
//@ end
//@ contract Parser::get_output_el ret=r
    requires synced(*old(self)),
    ensures r is Ok ==> synced(*final(self)),
        final(self).token_list == old(self).token_list,
        r matches Err(e) ==> not_rule_level(e),
//@ end
//@ attr Parser::get_output_els
#[verifier::exec_allows_no_decreases_clause]
//@ end
//@ contract Parser::get_output_els ret=r
    requires synced(*old(self)),
    ensures
        // these are exactly the clauses the `follow` kernel ASSUMES of its opaque get_output_els
        /*#outels.cursor_stays_in_step_with_the_list C13,C02*/ r is Ok ==> synced(*final(self)),
        /*#outels.token_list_untouched C13,C02*/ final(self).token_list == old(self).token_list,
        /*#outels.rule_level_errors_are_not_raised_below C13*/ r matches Err(e) ==> not_rule_level(e),
//@ end
//@ loop Parser::get_output_els 0
    invariant synced(*self), self.token_list == old(self).token_list,
//@ end
